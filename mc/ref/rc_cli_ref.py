"""rc_cli_ref — reference for the `hy` command line (docs/cli.rst + `hy --help`
+ the CPython command line it "in general imitates").  Knows nothing about
hy/cmdline.py.

Rules transcribed:
  * options are read left to right, getopt style: single-letter options may be
    clustered (-Bc), an option taking an argument takes the rest of its
    cluster if that is non-empty, else the next argument; `--name value` or
    `--name=value` for long options with an argument;
  * -c CMD and -m MODULE terminate the option list: everything after their
    argument belongs to the program;  `--` ends the options: what follows is
    the script (or `-`) and its arguments;  the first argument that is not an
    option (or is `-`) is the script and ends the options too;
  * unknown option, or a missing option argument -> usage error;
  * no script/-c/-m: the REPL if stdin is a TTY (or -i is given: "forces a
    prompt even if stdin does not appear to be a terminal"), else the program
    is read from stdin;
  * sys.argv[1:] are the program's arguments ("arguments passed to program in
    (cut sys.argv 1)");  sys.argv[0] is "-c" for -c, the script name as given
    for a script, "-" for `-`, the module's file path for -m (Python docs,
    "Interface options");
  * -m mangles the module name (cli.rst) — the reference reports the name as given, the check applies hy.mangle;
  * in REPL mode there is no program, so sys.argv is not specified;
  * -i: enter the REPL after running the program; --spy / --repl-output-fn
    configure that REPL; -B: don't write bytecode; -E: ignore PYTHON* variables.

Unspecified (documentation silent), reported as kind "unspecified":
  -i together with -m (Hy refuses), -i together with an explicit `-`,
  options outside the alphabet (-h -v -u), `--spy=...`.
"""

ALPHA = ["-c", "-m", "-", "--", "-i", "-B", "-E", "--spy", "-x", "--repl-output-fn", "-c(print 1)", "-mrc-mod", "-Bc",
         "prog.hy", "rc-mod", "(print 1)", "a"]


def parse(args, stdin_tty):
    o = dict(B=False, E=False, i=False, spy=False, output_fn=None)
    n = len(args)
    i = 0

    def run(mode, target, rest, argv0, implicit=False):
        d = dict(kind="run", mode=mode, target=target, args=list(rest), argv0=argv0, implicit_stdin=implicit)
        d.update(o)
        if o["i"] and mode == "module":
            return dict(kind="unspecified", why="-i with -m")
        if o["i"] and mode == "stdin" and not implicit:
            return dict(kind="unspecified", why="-i with an explicit -")
        return d

    while i < n:
        a = args[i]
        if a == "--":
            i += 1
            break
        if a == "-" or not a.startswith("-"):
            break
        if a.startswith("--"):
            name, eq, val = a.partition("=")
            if name == "--spy":
                if eq:
                    return dict(kind="unspecified", why="--spy=")
                o["spy"] = True
            elif name == "--repl-output-fn":
                if eq:
                    o["output_fn"] = val
                else:
                    if i + 1 >= n:
                        return dict(kind="usage-error", why="missing argument of --repl-output-fn")
                    i += 1
                    o["output_fn"] = args[i]
            elif name in ("--help", "--version", "--unbuffered"):
                return dict(kind="unspecified", why=name)
            else:
                return dict(kind="usage-error", why="unknown option " + name)
            i += 1
            continue
        j = 1
        while j < len(a):
            ch = a[j]
            if ch in "BEi":
                o[ch] = True
                j += 1
            elif ch in "cm":
                arg = a[j + 1:]
                if not arg:
                    if i + 1 >= n:
                        return dict(kind="usage-error", why="missing argument of -" + ch)
                    i += 1
                    arg = args[i]
                rest = args[i + 1:]
                if ch == "c":
                    return run("command", arg, rest, "-c")
                return run("module", arg, rest, "<module file>")      # target: the name as given; it is run mangled
            elif ch in "uhv":
                return dict(kind="unspecified", why="-" + ch)
            else:
                return dict(kind="usage-error", why="unknown option -" + ch)
        i += 1
    rest = args[i:]
    if not rest:
        if stdin_tty or o["i"]:
            return run("repl", None, [], "")
        return run("stdin", None, [], "", implicit=True)
    if rest[0] == "-":
        return run("stdin", None, rest[1:], "-")
    return run("file", rest[0], rest[1:], rest[0])


# ------------------------------------------------------------------ (b) programs

HEADER = "(import sys json) (print (json.dumps [sys.argv __name__]))"
PROGRAMS = {
    "value": (HEADER + " (print (+ 40 2))", ["42"], 0, None),
    "argv": (HEADER + " (print (len sys.argv))", None, 0, None),          # second line: 1 + number of arguments
    "exit": (HEADER + ' (print "before") (sys.exit 3) (print "after")', ["before"], 3, None),
    "raise": (HEADER + ' (print "before") (raise (ValueError "rc41-boom")) (print "after")', ["before"], 1, "ValueError: rc41-boom"),
}
MODES = ["c", "file", "stdin", "m"]
TRAIL = ["a", "-x", "--", "-c", "-m", "-i"]


def expected_run(prog, mode, args, file_name, file_abspath):
    """-> (argv0, [stdout lines after the header], exit status, stderr must contain)"""
    src, lines, status, err = PROGRAMS[prog]
    if lines is None:
        lines = [str(1 + len(args))]
    argv0 = {"c": "-c", "file": file_name, "stdin": "-", "m": file_abspath}[mode]
    return argv0, list(lines), status, err


def command_line(prog, mode, args, file_name, mod_name):
    """-> (argv after `hy`, stdin text or None)"""
    src = PROGRAMS[prog][0]
    if mode == "c":
        return ["-c", src] + list(args), None
    if mode == "file":
        return [file_name] + list(args), None
    if mode == "stdin":
        return ["-"] + list(args), src
    return ["-m", mod_name] + list(args), None
