"""Textbook quasiquote for C31 (author prefix pr_).

The reference follows api.rst ("quasiquote", "unquote", "unquote-splice") and
the property statement, and knows nothing about render_quoted_form:

* a template is a model tree; the quasiquote level starts at 0;
* an Expression headed by the symbol `quasiquote` raises the level of
  everything inside it by one, one headed by `unquote` / `unquote-splice`
  lowers it by one -- unless the level is 0, in which case the form is a
  *hole*: `(unquote f)` is replaced by the value of f, `(unquote-splice f)` by
  the elements of `(or value [])`, spliced into the parent sequence;
* every other node is literal: atoms are themselves, sequence models are
  rebuilt with the same class and the same brackets / conversion /
  expression / is_tstring around the processed children.

Values are inserted as they are; comparison with the implementation is
made modulo promotion (`promote`, a transcription of the documented
hy.as-model table), because the documentation leaves open whether the
inserted value is promoted at construction time or later.

Also: the exhaustive template generator and the binding pool.
"""
import itertools

from mc.ref import pr_models as P


class OutOfSpace(Exception):
    """The template is malformed in a way the documentation says nothing about."""


class Unpromotable(Exception):
    pass


def _M():
    return P._M()


def rebuild(form, kids):
    M = _M()
    if isinstance(form, M.FString):
        return M.FString(kids, brackets=form.brackets, is_tstring=form.is_tstring)
    if isinstance(form, M.FComponent):
        return M.FComponent(kids, conversion=form.conversion, expression=form.expression, is_tstring=form.is_tstring)
    return type(form)(kids)


def ref_eval(form, env):
    """Value of an unquoted form.  The template space only unquotes variables."""
    M = _M()
    if isinstance(form, M.Symbol) and str(form) in env:
        return env[str(form)]
    raise OutOfSpace("unquoted form is not a bound variable: %r" % (form,))


OPS = ("unquote", "unquote-splice", "quasiquote")


def canon_op(name):
    """`unquote_splice` and `unquote-splice` are the same symbol (syntax.rst,
    "mangling": hyphens and underscores are interchangeable in symbols)."""
    return name.replace("_", "-")


def qq(form, env, level=0):
    """-> ("one", value) or ("splice", [values]).  Holes are evaluated left to
    right.  Exceptions raised by `list(value or [])` propagate (the expected
    outcome is then that exception's class)."""
    M = _M()
    if isinstance(form, M.Expression) and len(form) and isinstance(form[0], M.Symbol):
        op = canon_op(str(form[0]))
        if op in OPS and len(form) != 2:
            raise OutOfSpace("%s with %d arguments" % (op, len(form) - 1))
        if op in ("unquote", "unquote-splice"):
            if level == 0:
                v = ref_eval(form[1], env)
                if op == "unquote":
                    return "one", v
                return "splice", list(v or [])
            level -= 1
        elif op == "quasiquote":
            level += 1
    if isinstance(form, M.Sequence):
        kids = []
        for c in form:
            kind, v = qq(c, env, level)
            if kind == "splice":
                kids.extend(v)
            else:
                kids.append(v)
        return "one", rebuild(form, kids)
    return "one", form


def promote(v):
    """Reference hy.as-model (api.rst / models docs): Python values of the
    literal types become the corresponding models, recursively."""
    M = _M()
    if isinstance(v, M.Object):
        if isinstance(v, M.Sequence):
            return rebuild(v, [promote(c) for c in v])
        return v
    if v is None:
        return M.Symbol("None")
    if v is True or v is False:
        return M.Symbol("True" if v else "False")
    t = type(v)
    if t is int:
        return M.Integer(v)
    if t is float:
        return M.Float(v)
    if t is complex:
        return M.Complex(v.real, v.imag)
    if t is str:
        return M.String(v)
    if t is bytes:
        return M.Bytes(v)
    if t is list:
        return M.List([promote(c) for c in v])
    if t is tuple:
        return M.Tuple([promote(c) for c in v])
    if t is set:
        return M.Set([promote(c) for c in v])
    if t is dict:
        return M.Dict([promote(x) for kv in v.items() for x in kv])
    raise Unpromotable(type(v).__name__)


# ------------------------------------------------------------------ binding pool

POOL_FULL = ["int5", "int0", "str", "str0", "sym", "kw", "kw0", "list12", "list0", "none", "tuple", "gen",
             "m_unq", "m_bstr", "dict", "m_list"]
POOL_SMALL = ["int5", "sym", "kw0", "list12", "none", "gen", "m_unq"]


def make_value(name):
    """A FRESH value for a pool name (generators are single-use)."""
    M = _M()
    if name == "int5":
        return 5
    if name == "int0":
        return 0
    if name == "str":
        return "st"
    if name == "str0":
        return ""
    if name == "sym":
        return M.Symbol("q")
    if name == "kw":
        return M.Keyword("kw")
    if name == "kw0":
        return M.Keyword("")          # the empty keyword is false
    if name == "list12":
        return [1, "b"]
    if name == "list0":
        return []
    if name == "none":
        return None
    if name == "tuple":
        return (1, (2,))
    if name == "gen":
        return (x for x in [M.Symbol("g1"), 2])
    if name == "m_unq":                # a model that itself looks like an unquote: must stay literal
        return M.Expression([M.Symbol("unquote"), M.Symbol("zz")])
    if name == "m_bstr":
        return M.String("b\n", brackets="d")
    if name == "dict":
        return {"k": [1]}
    if name == "m_list":
        return M.List([M.Symbol("a"), M.Expression([M.Symbol("unquote-splice"), M.Symbol("zz")]), 3])
    raise KeyError(name)


# ------------------------------------------------------------------ templates

KINDS = ("Expression", "List", "Tuple", "Set", "Dict", "FString", "FComponent")
ATOMS = [P.Sym("a"), ["Integer", "1"]]
FSTR_ATOM = P.S("s")


def _seq(kind, kids):
    if kind == "FString":
        return ["FString", None, False, kids]
    if kind == "FComponent":
        return ["FComponent", "r", "e", False, kids]
    return [kind, kids]


def _is_holeish(t):
    """hole or unquote/quasiquote wrapper expression"""
    return t[0] == "HOLE" or (t[0] == "Expression" and len(t[1]) == 2 and t[1][0][0] == "Symbol"
                              and canon_op(t[1][0][1]) in OPS)


# the "operator names as data" family: the three operator symbols as plain
# atoms (so they appear as the first element of List/Tuple/Set/Dict/... nodes
# and at non-head positions, where they are ordinary symbols), and the
# underscore spelling of the splice operator as a hole / wrapper head.
OP_ATOMS = [P.Sym("unquote"), P.Sym("unquote-splice"), P.Sym("quasiquote")]
FAMILIES = {
    "base": dict(atoms=ATOMS, hole_ops=("unquote", "unquote-splice"), fstr=True),
    "opnames": dict(atoms=[P.Sym("a")] + OP_ATOMS, hole_ops=("unquote", "unquote_splice"), fstr=False),
}


def _ok_child(kind, idx, t):
    if kind == "FString" or (kind == "FComponent" and idx > 0):
        return _is_holeish(t) or t == FSTR_ATOM or t[0] == "FComponent"
    if t[0] == "FComponent":
        return False            # a field only lives inside an f-string or a format spec
    if t == FSTR_ATOM:
        return kind == "FComponent"
    return True


def gen(level, n, max_level, max_arity, memo, fam="base"):
    """All templates with exactly n nodes whose root is at quasiquote `level`."""
    k = (level, n, fam)
    if k in memo:
        return memo[k]
    F = FAMILIES[fam]
    kinds = KINDS if F["fstr"] else KINDS[:5]
    out = []
    if n == 1:
        out.extend(F["atoms"])
        if F["fstr"]:
            out.append(FSTR_ATOM)
        if level == 0:
            for op in F["hole_ops"]:
                out.append(["HOLE", op])
        for kind in kinds:
            out.append(_seq(kind, []))
    else:
        # unary wrappers
        if level >= 1:
            for op in F["hole_ops"]:
                for t in gen(level - 1, n - 1, max_level, max_arity, memo, fam):
                    if t[0] != "FComponent":
                        out.append(["Expression", [P.Sym(op), t]])
        if level + 1 <= max_level:
            for t in gen(level + 1, n - 1, max_level, max_arity, memo, fam):
                if t[0] != "FComponent":
                    out.append(["Expression", [P.Sym("quasiquote"), t]])
        # sequences
        for kind in kinds:
            for ar in range(1, min(max_arity, n - 1) + 1):
                for split in _compositions(n - 1, ar):
                    pools = []
                    for idx, sz in enumerate(split):
                        pools.append([t for t in gen(level, sz, max_level, max_arity, memo, fam) if _ok_child(kind, idx, t)])
                    for kids in itertools.product(*pools):
                        out.append(_seq(kind, list(kids)))
    memo[k] = out
    return out


def _compositions(total, parts):
    if parts == 1:
        yield (total,)
        return
    for first in range(1, total - parts + 2):
        for rest in _compositions(total - first, parts - 1):
            yield (first,) + rest


def holes(t):
    if t[0] == "HOLE":
        return 1
    return sum(holes(c) for c in P.children(t))


def number_holes(t, counter=None):
    """Replace the i-th hole (pre-order) by (unquote xi) / (unquote-splice xi)."""
    if counter is None:
        counter = [0]
    if t[0] == "HOLE":
        i = counter[0]
        counter[0] += 1
        return ["Expression", [P.Sym(t[1]), P.Sym("x%d" % i)]]
    if t[0] in P.SEQ:
        return [t[0], [number_holes(c, counter) for c in t[1]]]
    if t[0] == "FString":
        return t[:3] + [[number_holes(c, counter) for c in t[3]]]
    if t[0] == "FComponent":
        return t[:4] + [[number_holes(c, counter) for c in t[4]]]
    return t


SPACE = {
    "quick": dict(n=4, max_level=2, max_arity=3, max_holes=2, pool2="small", n_opnames=3),
    "thorough": dict(n=5, max_level=2, max_arity=3, max_holes=3, pool2="full", n_opnames=4),
}
_TCACHE = {}


def templates(tier):
    """Templates of <= n nodes (as specs with numbered holes), simplest first,
    with at most max_holes holes."""
    if tier not in _TCACHE:
        b = SPACE[tier]
        memo = {}
        out = []
        for n in range(1, b["n"] + 1):
            for t in gen(0, n, b["max_level"], b["max_arity"], memo):
                if t[0] == "FComponent" or t == FSTR_ATOM:
                    continue
                h = holes(t)
                if h <= b["max_holes"]:
                    out.append((h, number_holes(t)))
        base = {repr(t) for _, t in out}
        for n in range(1, b["n_opnames"] + 1):
            for t in gen(0, n, b["max_level"], b["max_arity"], memo, "opnames"):
                h = holes(t)
                if h <= b["max_holes"]:
                    nt = number_holes(t)
                    if repr(nt) not in base:
                        out.append((h, nt))
        _TCACHE[tier] = out
    return _TCACHE[tier]


def bindings(tier, h):
    """Every assignment of pool names to h holes: the full pool for h <= 1, and
    for h >= 2 the full pool (thorough, h = 2) or the small pool."""
    b = SPACE[tier]
    if h == 0:
        return [()]
    if h == 1:
        return [(p,) for p in POOL_FULL]
    pool = POOL_FULL if (b["pool2"] == "full" and h == 2) else POOL_SMALL
    return list(itertools.product(pool, repeat=h))
