"""Abstract function signatures and calls for C05, with their Hy and Python
renderings.  The only semantics in here is *syntax*: which text denotes the
abstract signature / call in each language (docs/api.rst `defn`, and
docs/syntax.rst: keyword arguments may be mingled with positional ones and
are "moved back").  Binding itself is decided by CPython on the Python text.

signature = (pos, ord, star, kwo, kw)
  pos, ord, kwo : tuples of bools (has a default?) for positional-only,
                  ordinary and keyword-only parameters
  star          : None | "args" | "bare"
  kw            : bool
Parameter names are a, b, c, ... in order of appearance; the collectors are
named args and kw.
"""
import itertools

LETTERS = "abcdefgh"
UNKNOWN = "zz"


def signatures(p):
    """every legal signature with at most p parameters (collectors count, the
    markers / and * don't), simplest first."""
    out = []
    for total in range(p + 1):
        for n_pos in range(total + 1):
            for n_ord in range(total - n_pos + 1):
                for n_kwo in range(total - n_pos - n_ord + 1):
                    rest = total - n_pos - n_ord - n_kwo
                    for star, kw in ((None, False), ("args", False), (None, True), ("args", True), ("bare", False), ("bare", True)):
                        if (star == "args") + kw != rest:
                            continue
                        if star == "bare" and n_kwo == 0:
                            continue
                        if n_kwo and star is None:
                            continue
                        n = n_pos + n_ord
                        for ndef in range(n + 1):
                            d = (False,) * (n - ndef) + (True,) * ndef
                            for kd in itertools.product((False, True), repeat=n_kwo):
                                out.append((d[:n_pos], d[n_pos:], star, tuple(kd), kw))
    return out


def names(sig):
    pos, ord_, star, kwo, kw = sig
    n = len(pos) + len(ord_) + len(kwo)
    return list(LETTERS[:n])


def nparams(sig):
    pos, ord_, star, kwo, kw = sig
    return len(pos) + len(ord_) + len(kwo) + (star == "args") + bool(kw)


def tokens(sig):
    """lambda-list token sequence: ('n', name) | ('d', name, site) | ('/',) | ('*',) | ('va', name) | ('kw', name)"""
    pos, ord_, star, kwo, kw = sig
    it = iter(LETTERS)
    site = itertools.count()
    out = []

    def par(has_default):
        nm = next(it)
        s = next(site)
        return ("d", nm, s) if has_default else ("n", nm)
    for d in pos:
        out.append(par(d))
    if pos:
        out.append(("/",))
    for d in ord_:
        out.append(par(d))
    if star == "args":
        out.append(("va", "args"))
    elif star == "bare":
        out.append(("*",))
    for d in kwo:
        out.append(par(d))
    if kw:
        out.append(("kw", "kw"))
    return out


def default_value(site):
    return 100 + site


def hy_lambda_list(toks, logged=True):
    parts = []
    for t in toks:
        if t[0] == "n":
            parts.append(t[1])
        elif t[0] == "d":
            parts.append(f"[{t[1]} (log {t[2]} {default_value(t[2])})]" if logged else f"[{t[1]} {default_value(t[2])}]")
        elif t[0] in "/*":
            parts.append(t[0])
        elif t[0] == "va":
            parts.append("#* " + t[1])
        else:
            parts.append("#** " + t[1])
    return "[" + " ".join(parts) + "]"


def py_param_list(toks, logged=True):
    parts = []
    for t in toks:
        if t[0] == "n":
            parts.append(t[1])
        elif t[0] == "d":
            parts.append(f"{t[1]}=log({t[2]}, {default_value(t[2])})" if logged else f"{t[1]}={default_value(t[2])}")
        elif t[0] in "/*":
            parts.append(t[0])
        elif t[0] == "va":
            parts.append("*" + t[1])
        else:
            parts.append("**" + t[1])
    return ", ".join(parts)


def bound_names(toks):
    return [t[1] for t in toks if t[0] not in "/*"]


def hy_def(toks, kind="defn"):
    body = "{" + " ".join(f'"{n}" {n}' for n in bound_names(toks)) + "}"
    ll = hy_lambda_list(toks)
    if kind == "defn":
        return f"(defn f {ll} {body})"
    return f"(setv f (fn {ll} {body}))"


def py_def(toks):
    body = "{" + ", ".join(f'"{n}": {n}' for n in bound_names(toks)) + "}"
    return f"def f({py_param_list(toks)}):\n    return {body}\n"


# ---------------------------------------------------------------- calls
# call item: ("P",) | ("K", name) | ("S",) | ("D", name)

def call_alphabet(nnames):
    nm = list(LETTERS[:nnames]) + [UNKNOWN]
    return [("P",)] + [("K", n) for n in nm] + [("S",)] + [("D", n) for n in nm]


def calls(nnames, maxlen):
    """every call of at most maxlen argument items, shortest first, with the
    number of names it needs (a call is enumerated once, for the smallest
    name universe containing it)."""
    alpha = call_alphabet(nnames)
    out = []
    for k in range(maxlen + 1):
        for combo in itertools.product(alpha, repeat=k):
            out.append(combo)
    return out


def call_needs(call):
    """how many letters (parameter names) the call mentions"""
    m = 0
    for it in call:
        if it[0] in "KD" and it[1] != UNKNOWN:
            m = max(m, LETTERS.index(it[1]) + 1)
    return m


def has_repeated_literal_keyword(call):
    ks = [it[1] for it in call if it[0] == "K"]
    return len(ks) != len(set(ks))


def _val(i):
    return 10 * (i + 1)


def hy_call(call, callee="f"):
    parts = [callee]
    for i, it in enumerate(call):
        v = _val(i)
        if it[0] == "P":
            parts.append(str(v))
        elif it[0] == "K":
            parts.append(f":{it[1]} {v}")
        elif it[0] == "S":
            parts.append(f"#* [{v} {v + 1}]")
        else:
            parts.append(f'#** {{"{it[1]}" {v}}}')
    return "(" + " ".join(parts) + ")"


def py_call(call, callee="f"):
    """Python order: positional items (and *-unpackings) first, in their
    order; then the keyword items (and **-unpackings), in their order."""
    pos, kws = [], []
    for i, it in enumerate(call):
        v = _val(i)
        if it[0] == "P":
            pos.append(str(v))
        elif it[0] == "K":
            kws.append(f"{it[1]}={v}")
        elif it[0] == "S":
            pos.append(f"*[{v}, {v + 1}]")
        else:
            kws.append(f'**{{"{it[1]}": {v}}}')
    return callee + "(" + ", ".join(pos + kws) + ")"


def call_is_mingled(call):
    """a keyword item occurs before a positional item"""
    seen_kw = False
    for it in call:
        if it[0] in "KD":
            seen_kw = True
        elif seen_kw:
            return True
    return False


# ---------------------------------------------------------------- illegal neighbours

EDIT_TOKENS = [("n", "x"), ("d", "y", 7), ("/",), ("*",), ("va", "r"), ("kw", "k")]


def neighbours(toks):
    """all token sequences one edit away (delete one token, insert one token
    from EDIT_TOKENS, swap two adjacent tokens, duplicate a parameter name)."""
    seen = set()
    out = []

    def add(t):
        t = tuple(t)
        if t not in seen and t != tuple(toks):
            seen.add(t)
            out.append(t)
    toks = list(toks)
    for i in range(len(toks)):
        add(toks[:i] + toks[i + 1:])
    for i in range(len(toks) + 1):
        for e in EDIT_TOKENS:
            add(toks[:i] + [e] + toks[i:])
    for i in range(len(toks) - 1):
        add(toks[:i] + [toks[i + 1], toks[i]] + toks[i + 2:])
    first = next((t[1] for t in toks if t[0] not in "/*"), None)
    if first:
        for i in range(len(toks)):
            if toks[i][0] not in "/*" and toks[i][1] != first:
                add(toks[:i] + [(toks[i][0], first) + tuple(toks[i][2:])] + toks[i + 1:])
    return out
