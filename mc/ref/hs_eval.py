"""C39 helper: programs, call shapes, dictionary configurations, the real
hy.eval driver and a reference interpreter.

Dictionaries of a history (shared by all its calls):
    G   a plain dict, passed as `globals`
    L   a plain dict, passed as `locals`
    M   the __dict__ of the module passed as `module` (fresh per history)
each starting with `hy` absent ("A"), = the hy module ("M"), = a sentinel
object ("S") or = a falsy value ("F"), and, unless the configuration says
"bare", a user variable or two.

Call shapes (which dictionaries are GIVEN to hy.eval):
    g     hy.eval(m, G, module=Mod)                 locals defaults to globals
    l     hy.eval(m, locals=L, module=Mod)          globals defaults to Mod.__dict__ (not given)
    gl    hy.eval(m, G, L, module=Mod)
    ll    hy.eval(m, L, L, module=Mod)              same dict for both
    mg    hy.eval(m, Mod.__dict__, module=Mod)      the caller's own module globals
    mgl   hy.eval(m, Mod.__dict__, L, module=Mod)   ... with separate locals: `hy.eval(m, (globals), (locals))`
    m     hy.eval(m, module=Mod)                    no dictionary given (unspecified by the property)

Programs are sequences of statements from STATEMENTS, rendered either as a
multi-form Lazy (hy.read_many) or as one (do ...) form.  `(hs_tick)` is the
effect / fault point: a builtin installed by this module that raises Fault
when its call-local index is in the operation's fault set.
"""

STATEMENTS = {
    "c": "42",
    "sx": "(setv x 1)",
    "ix": "(setv x (+ x 1))",
    "rx": "x",
    "sy": "(setv y [x])",
    "sh": "(setv hy 7)",
    "dh": "(del hy)",
    "rh": "hy",
    "uh": "(int (hy.models.Integer 3))",
    "t": "(hs_tick)",
    "r": '(raise (ValueError "b"))',
    "ce": "(setv x)",                     # rejected at compile time, nothing runs
    "gh": "(do (global hy) (setv hy 9))",  # explicit global rebinding: unspecified when globals is not locals
    "re": "(",                            # reader error; only as the last statement of a multi-form program
}

SHAPES = ["g", "l", "gl", "ll", "mg", "mgl", "m"]
GIVEN = {"g": ["G"], "l": ["L"], "gl": ["G", "L"], "ll": ["L"], "mg": ["M"], "mgl": ["M", "L"], "m": []}
SCOPE = {  # shape -> (globals dict, locals dict) of the evaluated code
    "g": ("G", "G"), "l": ("M", "L"), "gl": ("G", "L"), "ll": ("L", "L"), "mg": ("M", "M"), "mgl": ("M", "L"), "m": ("M", "M")}
USES = {"g": "G", "l": "LM", "gl": "GL", "ll": "L", "mg": "M", "mgl": "ML", "m": "M"}     # which initial hy-states matter
HY_STATES = ["A", "M", "S", "F"]


class Fault(BaseException):
    pass


class Sentinel:
    def __repr__(self):
        return "<sentinel>"


class Tick:
    def __init__(self):
        self.faults = set()
        self.n = 0
        self.fired = []

    def arm(self, faults):
        self.faults = set(faults)
        self.n = 0
        self.fired = []

    def __call__(self):
        self.n += 1
        if self.n in self.faults:
            self.fired.append(self.n)
            raise Fault(self.n)
        return self.n


TICK = Tick()
UNSPEC = "<unspecified>"
ABSENT = "<absent>"


def install():
    import builtins
    builtins.hs_tick = TICK


def program_text(stmts, render):
    parts = [STATEMENTS[s] for s in stmts]
    if render == "do":
        return "(do " + " ".join(parts) + ")"
    return " ".join(parts)


def make_model(stmts, render):
    import hy
    text = program_text(stmts, render)
    if render == "do":
        return hy.read(text)
    return hy.read_many(text)


# ---------------------------------------------------------------- environments

class Env:
    """The real dictionaries of one history and the reference copies."""

    def __init__(self, cfg):
        import types
        import hy
        self.cfg = cfg
        self.sentinel = Sentinel()
        self.hymod = hy
        self.mod = types.ModuleType("hs_evalmod")
        self.real = {"G": {}, "L": {}, "M": self.mod.__dict__}
        self.base_M = set(self.mod.__dict__)
        self.ref = {"G": {}, "L": {}, "M": {}}
        for d, st in zip("GLM", cfg["hy"]):
            if st != "A":
                v = {"M": hy, "S": self.sentinel, "F": 0}[st]
                self.real[d]["hy"] = v
                self.ref[d]["hy"] = v
        if not cfg.get("bare"):
            self.real["G"]["gv"] = 10
            self.ref["G"]["gv"] = 10
            self.real["L"]["lv"] = 20
            self.ref["L"]["lv"] = 20

    def hy_label(self, v):
        if v is ABSENT:
            return "A"
        if v is self.hymod:
            return "M"
        if v is self.sentinel:
            return "S"
        if v == 0 and type(v) is int:
            return "F"
        return "other:" + type(v).__name__ + ":" + repr(v)[:20]

    def observe(self, d):
        """Canonical content of a real dict: (hy label, x, y, extra keys)."""
        dd = self.real[d]
        base = self.base_M if d == "M" else ()
        extra = sorted(k for k in dd if k not in ("hy", "x", "y", "gv", "lv", "__builtins__", "_hy_macros", "_hy_reader_macros") and k not in base)
        return (self.hy_label(dd.get("hy", ABSENT)), repr(dd.get("x", ABSENT)), repr(dd.get("y", ABSENT)), tuple(extra))

    def canon(self):
        return tuple(self.observe(d) for d in "GLM")


def call_real(env, shape, stmts, render, faults):
    """One hy.eval call on the real dictionaries -> (outcome, ticks, fired)."""
    import hy
    install()
    try:
        model = make_model(stmts, render)
    except BaseException as e:
        return ("read-failed", type(e).__name__), 0, []
    G, L, M = env.real["G"], env.real["L"], env.real["M"]
    kw = {"g": dict(globals=G), "l": dict(locals=L), "gl": dict(globals=G, locals=L), "ll": dict(globals=L, locals=L),
          "mg": dict(globals=M), "mgl": dict(globals=M, locals=L), "m": {}}[shape]
    TICK.arm(faults)
    try:
        v = hy.eval(model, module=env.mod, **kw)
        out = ("ok", v)
    except Fault:
        out = ("raise", "Fault")
    except BaseException as e:
        out = ("raise", type(e).__name__)
    return out, TICK.n, list(TICK.fired)


# ---------------------------------------------------------------- reference interpreter

class RefRaise(Exception):
    pass


def call_ref(env, shape, stmts, render, faults):
    """Reference semantics on env.ref.  Returns (outcome, ticks, fired,
    unspecified_reason or None, outcome_unspecified).  Outcome values may be
    UNSPEC; outcome_unspecified means that what the code observes (not the
    restoration) depends on where an implementation keeps its implicit `hy`."""
    gname, lname = SCOPE[shape]
    Dg, Dl = env.ref[gname], env.ref[lname]
    before = {d: env.ref[d].get("hy", ABSENT) for d in "GLM"}
    unspec = None
    if shape == "m":
        unspec = "no dictionary given"
    if "gh" in stmts and gname != lname:
        unspec = "explicit (global hy) rebinding with separate locals"
    ticks = 0
    fired = []
    out_unspec = False
    deleted = False
    if "re" in stmts and (render != "many" or stmts[-1] != "re" or "re" in stmts[:-1]):
        raise ValueError("reader-error statement only last, multi-form rendering only")
    static = [s for s in stmts if s in ("ce", "re")]
    py_syntax = any(s == "gh" and any(t in ("sh", "dh", "rh", "uh", "gh") for t in stmts[:j]) for j, s in enumerate(stmts))
    if static:
        # forms are read and compiled in order, all of them before anything runs
        out = ("raise", "HySyntaxError" if static[0] == "ce" else "PrematureEndOfInput")
    elif py_syntax:
        # Python's own rule: a `global` declaration may not follow a use of the name in the same block
        out = ("raise", "SyntaxError")
    else:
        # `hy` is implicitly available to the code: bound in its local scope
        Dl["hy"] = env.hymod
        val = None

        def lookup(name):
            for d in (Dl, Dg):
                if name in d:
                    return d[name]
            raise RefRaise("NameError")
        try:
            for s in stmts:
                if s == "c":
                    val = 42
                elif s == "sx":
                    Dl["x"] = 1
                    val = None
                elif s == "ix":
                    Dl["x"] = lookup("x") + 1
                    val = None
                elif s == "rx":
                    val = lookup("x")
                elif s == "sy":
                    Dl["y"] = [lookup("x")]
                    val = None
                elif s == "sh":
                    Dl["hy"] = 7
                    deleted = False
                    val = None
                elif s == "dh":
                    if "hy" not in Dl:
                        raise RefRaise("NameError")
                    del Dl["hy"]
                    deleted = True
                    val = None
                elif s == "rh":
                    if deleted and Dg is not Dl:
                        out_unspec = True
                        break
                    lookup("hy")
                    val = UNSPEC
                elif s == "uh":
                    if deleted and Dg is not Dl:
                        out_unspec = True
                        break
                    h = lookup("hy")
                    if h is env.hymod:
                        val = 3
                    elif h is env.sentinel or type(h) is int:
                        raise RefRaise("AttributeError")
                    else:
                        val = UNSPEC
                elif s == "t":
                    ticks += 1
                    if ticks in faults:
                        fired.append(ticks)
                        raise RefRaise("Fault")
                    val = ticks
                elif s == "r":
                    raise RefRaise("ValueError")
                elif s == "gh":
                    Dg["hy"] = 9
                    val = None
                else:
                    raise ValueError(s)
            out = ("ok", val)
            if out_unspec:
                out = ("unspecified",)
        except RefRaise as e:
            out = ("raise", e.args[0])
    # the property: every GIVEN dictionary has its `hy` entry back
    if shape != "m":
        for d in GIVEN[shape]:
            if unspec and d == gname and gname != lname:
                continue
            if before[d] is ABSENT:
                env.ref[d].pop("hy", None)
            else:
                env.ref[d]["hy"] = before[d]
    return out, ticks, fired, unspec, out_unspec


def resync(env, shape, unspec):
    """Dictionaries the property does not speak about in this call (not given,
    or unspecified): the reference adopts what the implementation did, so
    that later calls of the history stay in lock-step."""
    for d in "GLM":
        if shape == "m" or d not in GIVEN[shape] or unspec:
            r = env.real[d]
            if "hy" in r:
                env.ref[d]["hy"] = r["hy"]
            else:
                env.ref[d].pop("hy", None)


def fault_sets(stmts, max_faults):
    """Call-local fault sets that all fire: ticks are sequential and a fault
    aborts the program, so only single faults j <= number of ticks (a pair can
    never fire in one call)."""
    if "re" in stmts or "ce" in stmts:
        return [()]
    n = 0
    for s in stmts:
        if s == "t":
            n += 1
        elif s == "r":
            break
    # ticks after a statement that raises (NameError etc.) may be unreachable; the caller checks `fired`
    return [()] + ([(j,) for j in range(1, n + 1)] if max_faults else [])
