"""C04 helpers: abstract comprehension programs, their Hy text, the case space.

A *unit* is (root, clause-kind list, final kind).  A unit is expanded into
*terms* (one per statement-wrap position) and every term is rendered in three
scopes x two modes.  Everything here is a pure function of its arguments.

Clause kinds (one letter each; c = index of the clause in the list):
  I  vC (log i [c1 c2])                      iteration
  D  [pC qC] (log i [[c1 c2] [c3 c4]])       iteration with destructuring
  R  [pC #* qC] (log i [[c1 c2] [c3 c4]])    iteration with a starred destructuring target (qC is a list)
  E  vC (log i [])                           iteration over an empty iterable
  Q  vC (log i [vC c2])                      FIRST clause only, shadow mode only: the iterable reads the name the clause
                                             binds, i.e. the enclosing scope's variable (as in a Python comprehension,
                                             whose first iterable is evaluated in the enclosing scope)
  F  :if (log i (!= LAST first))             LAST = newest iteration variable (drops its first value)
  S  :setv sC (log i #(ALL))                 ALL = every variable bound so far
  O  :do (log i #(ALL))
  A  :do (setv wC (log i #(ALL)))            body assignment (visible outside)
  C  :do (when (log i (= LAST first)) (continue))
  B  :do (when (log i (= LAST second)) (break))

Final kinds
  lfor/sfor/gfor:  V value | U #* xs | X (setx wx value) | N / NX nested lfor with a body assignment
  dfor:            K key value | M #** d | KX value is (setx wx ...) | KN value is the nested form
  for:             P body | PE body+else | PB body+break | PBE | PN body with the nested form

Expressions (JSON-able lists):
  ["log", site, e]  ["tup", [names]]  ["lit", value]  ["ne", name, k]  ["eq", name, k]
  ["wrap", site, e]           (do (assert (log site True)) e)   statement-producing, same value
  ["setx", name, e]
  ["dict2", [names]]          {#(0 names..) 1  "z" #(names..)}
  ["nest", flavour, q, site_iter, site_val, w, [names]]
        N : (tuple (lfor q (log si [7 8]) :do (setv w (log sv #(names.. q))) w))
        NX: (tuple (lfor q (log si [7 8]) (setx w (log sv #(names.. q)))))
"""
import itertools

ROOTS = ["lfor", "sfor", "dfor", "gfor", "for"]
CORE_KINDS = ["I", "D", "F", "S", "O"]
FULL_KINDS = ["I", "D", "R", "F", "S", "O", "A", "C", "B", "E", "Q"]
FINALS = {
    "lfor": ["V", "U", "X", "N", "NX"],
    "sfor": ["V", "U", "X", "N", "NX"],
    "gfor": ["V", "U", "X", "N", "NX"],
    "dfor": ["K", "M", "KX", "KN"],
    "for": ["P", "PE", "PB", "PBE", "PN"],
}
SCOPES = ["module", "function", "class"]
MODES = ["fresh", "shadow"]
ITER_KINDS = ("I", "D", "R", "E", "Q")


# ---------------------------------------------------------------- space
def clause_lists(runs):
    """runs: [(alphabet, max_len)] -> all clause-kind tuples, shortest first, no duplicates.
    Lists in which an explicit continue/break clause (C, B) has no iteration
    clause before it are not generated: Python rejects them outright."""
    seen = set()
    out = []
    maxlen = max(n for _a, n in runs)
    for k in range(maxlen + 1):
        for alpha, n in runs:
            if k > n:
                continue
            for combo in itertools.product(alpha, repeat=k):
                if combo in seen:
                    continue
                seen.add(combo)
                ok = "Q" not in combo[1:]
                have_iter = False
                for kind in combo:
                    if kind in ITER_KINDS:
                        have_iter = True
                    elif kind in ("C", "B") and not have_iter:
                        ok = False
                        break
                if ok:
                    out.append(combo)
    return out


def units(runs):
    out = []
    for kinds in clause_lists(runs):
        has_iter = any(k in ITER_KINDS for k in kinds)
        for root in ROOTS:
            if "R" in kinds and root in ("sfor", "dfor"):
                continue            # a starred target binds a list, which can't be a set element or dict key
            for fin in FINALS[root]:
                if fin in ("PB", "PBE") and not has_iter:
                    continue        # (break) outside any loop: Python rejects it
                out.append((root, kinds, fin))
    return out


# ---------------------------------------------------------------- building terms
class _Builder:
    def __init__(self, root, kinds, fin, wrap):
        self.root, self.kinds, self.fin, self.wrap = root, kinds, fin, wrap
        self.site = itertools.count(1)
        self.slot = itertools.count(0)
        self.names = []          # every variable bound so far (ALL)
        self.last = None         # (name, first, second) of the newest iteration variable
        self.comp_vars = []      # iteration / :setv variables
        self.body_vars = []      # variables assigned by body forms
        self.nslots = 0

    def s(self):
        return next(self.site)

    def logged(self, inner):
        return ["log", self.s(), inner]

    def tup(self, extra=()):
        return ["tup", list(self.names) + list(extra)]

    def cond(self, op, which):
        if self.last is None:
            return ["lit", True]
        name, first, second = self.last
        return [op, name, first if which == "first" else second]

    def clause(self, c, kind):
        if kind == "I":
            # wrap site first so that site numbers follow the textual order
            e = self.slotted_lazy(lambda: self.logged(["lit", [c * 10 + 1, c * 10 + 2]]))
            v = f"v{c}"
            self.names.append(v)
            self.comp_vars.append(v)
            self.last = (v, c * 10 + 1, c * 10 + 2)
            return ["iter", v, e]
        if kind == "Q":
            v = f"v{c}"
            e = self.slotted_lazy(lambda: self.logged(["lstn", v, c * 10 + 2]))
            self.names.append(v)
            self.comp_vars.append(v)
            self.last = (v, c * 10 + 2, c * 10 + 2)
            return ["iter", v, e]
        if kind == "E":
            e = self.slotted_lazy(lambda: self.logged(["lit", []]))
            v = f"v{c}"
            self.names.append(v)
            self.comp_vars.append(v)
            self.last = (v, 0, 0)
            return ["iter", v, e]
        if kind == "R":
            e = self.slotted_lazy(lambda: self.logged(["lit", [[c * 10 + 1, c * 10 + 2], [c * 10 + 3, c * 10 + 4]]]))
            p, q = f"p{c}", f"q{c}"
            self.names += [p, q]
            self.comp_vars += [p, q]
            self.last = (p, c * 10 + 1, c * 10 + 3)
            return ["iter", [p, "#* " + q], e]
        if kind == "D":
            e = self.slotted_lazy(lambda: self.logged(["lit", [[c * 10 + 1, c * 10 + 2], [c * 10 + 3, c * 10 + 4]]]))
            p, q = f"p{c}", f"q{c}"
            self.names += [p, q]
            self.comp_vars += [p, q]
            self.last = (p, c * 10 + 1, c * 10 + 3)
            return ["iter", [p, q], e]
        if kind == "F":
            return ["if", self.slotted_lazy(lambda: self.logged(self.cond("ne", "first")))]
        if kind == "S":
            e = self.slotted_lazy(lambda: self.logged(self.tup()))
            v = f"s{c}"
            self.names.append(v)
            self.comp_vars.append(v)
            return ["setv", v, e]
        if kind == "O":
            return ["do", ["expr", self.logged(self.tup())]]
        if kind == "A":
            e = self.logged(self.tup())
            w = f"w{c}"
            self.names.append(w)
            self.body_vars.append(w)
            return ["do", ["assign", w, e]]
        if kind == "C":
            return ["do", ["when-continue", self.logged(self.cond("eq", "first"))]]
        if kind == "B":
            return ["do", ["when-break", self.logged(self.cond("eq", "second"))]]
        raise ValueError(kind)

    def slotted_lazy(self, make):
        """make() builds a wrappable subform; it is statement-wrapped if this is the chosen slot.
        (The wrap's site is drawn first so that site numbers follow the textual order.)"""
        k = next(self.slot)
        self.nslots = k + 1
        if self.wrap == k:
            ws = self.s()
            return ["wrap", ws, make()]
        return make()

    def nest(self, flavour):
        si, sv = self.s(), self.s()
        self.body_vars.append("wn")
        return ["nest", flavour, "qn", si, sv, "wn", list(self.names)]

    def build(self):
        clauses = [self.clause(c, k) for c, k in enumerate(self.kinds)]
        t = {"root": self.root, "kinds": "".join(self.kinds), "fin": self.fin, "wrap": self.wrap, "clauses": clauses}
        fin = self.fin
        if self.root == "for":
            body = []
            if fin == "PN":
                inner = self.slotted_lazy(lambda: self.nest("N"))
                self.body_vars.append("wb")
                body.append(["assign", "wb", inner])
            else:
                e = self.slotted_lazy(lambda: self.logged(self.tup()))
                self.body_vars.append("wb")
                body.append(["assign", "wb", e])
            if fin in ("PB", "PBE"):
                body.append(["when-break", self.logged(self.cond("eq", "second"))])
            t["body"] = body
            t["else"] = None
            if fin in ("PE", "PBE"):
                t["else"] = self.slotted_lazy(lambda: self.logged(["lit", "else"]))
            # in `for` every variable is an ordinary variable of the enclosing scope
            self.body_vars = self.comp_vars + self.body_vars
            self.comp_vars = []
        elif fin == "V":
            t["final"] = ["value", self.slotted_lazy(lambda: self.logged(self.tup()))]
        elif fin == "U":
            t["final"] = ["unpack", self.slotted_lazy(lambda: self.logged(self.tup()))]
        elif fin == "X":
            t["final"] = ["value", self.slotted_lazy(lambda: ["setx", "wx", self.logged(self.tup())])]
            self.body_vars.append("wx")
        elif fin in ("N", "NX"):
            t["final"] = ["value", self.slotted_lazy(lambda: self.nest(fin))]
        elif fin in ("K", "KX", "KN"):
            key = self.slotted_lazy(lambda: self.logged(self.tup()))
            if fin == "K":
                val = self.slotted_lazy(lambda: self.logged(self.tup()))
            elif fin == "KX":
                val = self.slotted_lazy(lambda: ["setx", "wx", self.logged(self.tup())])
                self.body_vars.append("wx")
            else:
                val = self.slotted_lazy(lambda: self.nest("N"))
            t["final"] = ["kv", key, val]
        elif fin == "M":
            t["final"] = ["unpack-map", self.slotted_lazy(lambda: self.logged(["dict2", list(self.names)]))]
        else:
            raise ValueError(fin)
        t["comp_vars"] = list(self.comp_vars)
        t["body_vars"] = list(dict.fromkeys(self.body_vars))
        t["nslots"] = self.nslots
        return t


def build(root, kinds, fin, wrap=None):
    return _Builder(root, tuple(kinds), fin, wrap).build()


def variants(root, kinds, fin):
    """The pure term, then one term per statement-wrap slot."""
    pure = build(root, kinds, fin, None)
    out = [pure]
    for k in range(pure["nslots"]):
        out.append(build(root, kinds, fin, k))
    return out


# ---------------------------------------------------------------- classification
def generated(term, scope):
    """Cases that are not part of the space: a nested comprehension in the body of a
    `for` in class scope would have to read the for's variables, which are class-body
    variables there (invisible inside comprehensions, as in Python; undocumented for Hy)."""
    return not (scope == "class" and term["fin"] == "PN")


def classify(term, scope):
    """'specified' or the name of the documentation gap that makes the case unspecified."""
    kinds = term["kinds"]
    if not any(k in ITER_KINDS for k in kinds):
        return "no-iteration-clause"
    for k in kinds:
        if k in ITER_KINDS:
            break
        if k == "F":
            return "if-before-first-iteration-clause"
    if scope == "class" and _has_comprehension_body_assignment(term):
        return "body-assignment-inside-comprehension-in-class-scope"
    return "specified"


def _has_comprehension_body_assignment(term):
    return term["root"] != "for" and bool(term["body_vars"])


# ---------------------------------------------------------------- rendering
def r_lit(v):
    if v is True:
        return "True"
    if isinstance(v, str):
        return '"' + v + '"'
    if isinstance(v, list):
        return "[" + " ".join(r_lit(x) for x in v) + "]"
    return repr(v)


def r_expr(e):
    op = e[0]
    if op == "log":
        return f"(log {e[1]} {r_expr(e[2])})"
    if op == "tup":
        return "#(" + " ".join(e[1]) + ")"
    if op == "lstn":
        return f"[{e[1]} {e[2]}]"
    if op == "lit":
        return r_lit(e[1])
    if op == "ne":
        return f"(!= {e[1]} {e[2]})"
    if op == "eq":
        return f"(= {e[1]} {e[2]})"
    if op == "wrap":
        return f"(do (assert (log {e[1]} True)) {r_expr(e[2])})"
    if op == "setx":
        return f"(setx {e[1]} {r_expr(e[2])})"
    if op == "dict2":
        names = " ".join(e[1])
        return "{#(0 " + names + ") 1  \"z\" #(" + names + ")}"
    if op == "nest":
        _, flavour, q, si, sv, w, names = e
        tup = "#(" + " ".join(list(names) + [q]) + ")"
        if flavour == "N":
            return f"(tuple (lfor {q} (log {si} [7 8]) :do (setv {w} (log {sv} {tup})) {w}))"
        return f"(tuple (lfor {q} (log {si} [7 8]) (setx {w} (log {sv} {tup}))))"
    raise ValueError(e)


def r_stmt(s):
    op = s[0]
    if op == "expr":
        return r_expr(s[1])
    if op == "assign":
        return f"(setv {s[1]} {r_expr(s[2])})"
    if op == "when-continue":
        return f"(when {r_expr(s[1])} (continue))"
    if op == "when-break":
        return f"(when {r_expr(s[1])} (break))"
    raise ValueError(s)


def r_clause(c):
    op = c[0]
    if op == "iter":
        tgt = c[1] if isinstance(c[1], str) else "[" + " ".join(c[1]) + "]"
        return f"{tgt} {r_expr(c[2])}"
    if op == "if":
        return f":if {r_expr(c[1])}"
    if op == "setv":
        return f":setv {c[1]} {r_expr(c[2])}"
    if op == "do":
        return f":do {r_stmt(c[1])}"
    raise ValueError(c)


def r_form(term):
    cl = "  ".join(r_clause(c) for c in term["clauses"])
    if term["root"] == "for":
        parts = [r_stmt(s) for s in term["body"]]
        if term["else"] is not None:
            parts.append(f"(else {r_expr(term['else'])})")
        return f"(for [{cl}] " + " ".join(parts) + ")"
    f = term["final"]
    if f[0] == "value":
        fin = r_expr(f[1])
    elif f[0] == "unpack":
        fin = "#* " + r_expr(f[1])
    elif f[0] == "kv":
        fin = r_expr(f[1]) + " " + r_expr(f[2])
    elif f[0] == "unpack-map":
        fin = "#** " + r_expr(f[1])
    else:
        raise ValueError(f)
    return f"({term['root']} {cl}{'  ' if cl else ''}{fin})"


def all_names(term):
    return list(term["comp_vars"]) + [n for n in term["body_vars"] if n not in term["comp_vars"]]


FORM_PLACEHOLDER = "FORM-PLACEHOLDER"


def r_program(term, scope, mode, form=None):
    """The whole program.  `form` overrides the rendered form (used to render a wrapper once
    around a placeholder symbol)."""
    pre = ""
    if mode == "shadow":
        pre = " ".join(f'(setv {n} "outer")' for n in all_names(term))
    if form is None:
        form = r_form(term)
    core = f"{pre}\n  (setv r {form})\n  (setv o (obs r))"
    if scope == "module":
        return f"{core}\n  (setv nm (dict (locals)))"
    if scope == "function":
        return f"(defn f []\n  {core}\n  (dict (locals)))\n(setv nm (f))"
    if scope == "class":
        return f"(defclass C []\n  {core}\n  (setv nm (dict (locals))))\n(setv nm C.nm)"
    raise ValueError(scope)
