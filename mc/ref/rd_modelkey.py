"""rd_modelkey — structural keys for Hy models ("compared by type and value").

`key(m)` maps a model tree to nested tuples of plain Python values: exact
model class name, value, and the syntax-visible attributes (brackets of
strings/f-strings, conversion of f-string fields, t-string flag).  Source
positions are ignored.  Floats/complexes are keyed by repr so that NaN equals
itself and -0.0 differs from 0.0.  `expression` (the verbatim source text an
f-string field keeps) is included only on request.
"""


def key(m, with_expression=True):
    import hy.models as M
    t = type(m).__name__
    if isinstance(m, M.FComponent):
        return (t, m.conversion, bool(m.is_tstring), m.expression if with_expression else None,
                tuple(key(x, with_expression) for x in m))
    if isinstance(m, M.FString):
        return (t, m.brackets, bool(m.is_tstring), tuple(key(x, with_expression) for x in m))
    if isinstance(m, M.Sequence):
        return (t, tuple(key(x, with_expression) for x in m))
    if isinstance(m, M.String):
        return (t, str(m), m.brackets)
    if isinstance(m, M.Bytes):
        return (t, bytes(m))
    if isinstance(m, M.Keyword):
        return (t, m.name)
    if isinstance(m, M.Symbol):
        return (t, str(m))
    if isinstance(m, M.Integer):
        return (t, int(m))
    if isinstance(m, M.Float):
        return (t, repr(float(m)))
    if isinstance(m, M.Complex):
        return (t, repr(complex(m)))
    if isinstance(m, M.Object):
        return (t, repr(m))
    return ("<non-model>", type(m).__name__, repr(m))


def read_keys(text, with_expression=True):
    """('ok', (key, ...)) or ('err', 'ExcType', 'message')."""
    import hy
    try:
        return ("ok", tuple(key(m, with_expression) for m in hy.read_many(text)))
    except BaseException as e:
        return ("err", type(e).__name__, str(getattr(e, "msg", e)))


def sym(name):
    return ("Symbol", name)


def expr(*kids):
    return ("Expression", tuple(kids))
