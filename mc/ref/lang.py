"""Reference model of Hy's core expression language L (DESIGN.md §3.1/§3.2).

Terms are tuples.  This module has: the exhaustive sized-term generator with
syntactic contexts (in function / in loop), the renderer to Hy text, and a
direct interpreter that returns (outcome, trace tree, final environment,
unspecified-reason).  The interpreter is a transcription of the documentation
(api.rst, semantics.rst) and of Python's own semantics for the constructs Hy
defines "like Python" (try/finally, loops, scoping); it knows nothing about
how the Hy compiler works.

Trace trees:  ("ev", site, value_repr) | ("seq", [children]) | ("par", [children])
`seq` = order fixed by the documentation; `par` = argument group whose order
the documentation leaves open (semantics.rst, "Order of evaluation").
"""
import functools
import itertools

POOL = ("x", "y")

# ---------------------------------------------------------------- terms
# leaves (size 1)
LEAVES = [("L", "0"), ("L", "1"), ("L", "x")]
LEAVES_MORE = [("L", "y"), ("L", "None")]

# (name, number of sub-term slots).  Extra non-term fields are baked into the name.
UNARY = ["not", "setv_x", "setv_y", "setx_x", "fn0", "defncall", "with_s", "with_n", "lfor", "when1"]
BINARY = ["do", "and", "or", "when", "let_x", "fn1", "f2", "list", "add", "while", "for_x",
          "try_ex", "try_fin", "cond1"]
TERNARY = ["if", "get", "cut", "whileelse", "forelse", "and3", "or3"]
QUATERNARY = ["cond", "try_full"]

ARITY = {}
for _n in UNARY:
    ARITY[_n] = 1
for _n in BINARY:
    ARITY[_n] = 2
for _n in TERNARY:
    ARITY[_n] = 3
for _n in QUATERNARY:
    ARITY[_n] = 4

# constructors known to render / interpreter / numbering but NOT used by the default generator
# (the spaces of C01/C12/C14/C17 stay as they are); C01 enumerates them in a family of its own
EXTRA_ARITY = {"try_exel": 3,     # (try A (except [ValueError] B) (else C))   -- no finally
               "cut_hi0": 2,      # (cut [A 7] B 0)                          -- literal upper bound 0
               "cut_step": 3}     # (cut [A 7 8] B None C)                   -- lower, no upper, step
ALL_ARITY = dict(ARITY)
ALL_ARITY.update(EXTRA_ARITY)

# which constructors produce Python statements when compiled (for the
# "non-trivial" rule: a term with one of these below an expression slot)
STMT_OPS = {"setv_x", "setv_y", "defncall", "with_s", "with_n", "while", "for_x", "whileelse", "forelse",
            "try_ex", "try_fin", "try_full", "try_exel", "raise", "break", "continue", "return", "let_x"}


def slot_ctx(op, k, in_fn, in_loop):
    """Context flags (return allowed, break/continue allowed) for slot k of op."""
    if op in ("fn0", "defncall"):
        return True, False
    if op == "fn1":
        return (in_fn, in_loop) if k == 0 else (True, False)     # slot 0 = argument, slot 1 = body
    if op == "lfor":
        return False, False
    if op in ("while", "whileelse"):
        if k == 0:
            return in_fn, False        # condition: a break here has no documented meaning
        if k == 1:
            return in_fn, True
        return in_fn, in_loop          # else clause belongs to the enclosing loop
    if op == "for_x":
        return in_fn, True
    if op == "forelse":
        if k < 2:
            return in_fn, True
        return in_fn, in_loop
    return in_fn, in_loop


@functools.lru_cache(maxsize=None)
def gen(n, in_fn=False, in_loop=False, ops=None, leaves=None):
    """All terms with exactly n nodes valid in the given context (tuple)."""
    ops_l = ops if ops is not None else tuple(ARITY)
    leaves_l = leaves if leaves is not None else tuple(LEAVES)
    out = []
    if n == 1:
        out.extend(leaves_l)
        out.append(("raise",))
        out.append(("boom",))
        if in_fn:
            out.append(("return0",))
        if in_loop:
            out.append(("break",))
            out.append(("continue",))
        return tuple(out)
    if in_fn:
        for t in gen(n - 1, in_fn, in_loop, ops, leaves):
            out.append(("return", t))
    for op in ops_l:
        ar = ALL_ARITY.get(op)
        if ar is None or n - 1 < ar:
            continue
        for split in _compositions(n - 1, ar):
            pools = []
            for k, s in enumerate(split):
                f, l = slot_ctx(op, k, in_fn, in_loop)
                pools.append(gen(s, f, l, ops, leaves))
            for kids in itertools.product(*pools):
                out.append((op,) + kids)
    return tuple(out)


def _compositions(total, parts):
    if parts == 1:
        yield (total,)
        return
    for first in range(1, total - parts + 2):
        for rest in _compositions(total - first, parts - 1):
            yield (first,) + rest


def number(term, counter=None):
    """Give every effect site a unique id (pre-order)."""
    if counter is None:
        counter = itertools.count(1)
    op = term[0]
    if op == "L":
        return ("log", next(counter), term[1])
    if op == "boom":
        return ("boom", next(counter))
    if op in ("with_s", "with_n", "f2"):
        i = next(counter)
        return (op, i) + tuple(number(t, counter) for t in term[1:])
    if op in ("raise", "break", "continue", "return0"):
        return term
    return (op,) + tuple(number(t, counter) for t in term[1:])


def size(term):
    return 1 + sum(size(t) for t in term[1:] if isinstance(t, tuple))


def depth(term):
    kids = [t for t in term[1:] if isinstance(t, tuple)]
    return 1 + (max(map(depth, kids)) if kids else 0)


def ops_in(term, acc=None):
    if acc is None:
        acc = set()
    acc.add(term[0])
    for t in term[1:]:
        if isinstance(t, tuple):
            ops_in(t, acc)
    return acc


def has_lifted_stmt(term, top=True):
    """True iff a statement-producing constructor occurs below the root, i.e.
    in an expression slot of another form (the compiler has to lift it)."""
    for t in term[1:]:
        if isinstance(t, tuple):
            if t[0] in STMT_OPS or has_lifted_stmt(t, False):
                return True
    return False


# ---------------------------------------------------------------- rendering
def render(t):
    op = t[0]
    r = render
    if op == "log":
        return f"(log {t[1]} {t[2]})"
    if op == "boom":
        return f"(boom {t[1]})"
    if op == "raise":
        return "(raise (ValueError))"
    if op == "break":
        return "(break)"
    if op == "continue":
        return "(continue)"
    if op == "return0":
        return "(return)"
    if op == "return":
        return f"(return {r(t[1])})"
    if op == "not":
        return f"(not {r(t[1])})"
    if op in ("setv_x", "setv_y"):
        return f"(setv {op[-1]} {r(t[1])})"
    if op == "setx_x":
        return f"(setx x {r(t[1])})"
    if op == "fn0":
        return f"((fn [] {r(t[1])}))"
    if op == "fn1":
        return f"((fn [x] {r(t[2])}) {r(t[1])})"
    if op == "defncall":
        return f"(do (defn f [] {r(t[1])}) (f))"
    if op in ("with_s", "with_n"):
        return f"(with [(cm {t[1]} {'True' if op == 'with_s' else 'False'})] {r(t[2])})"
    if op == "lfor":
        return f"(lfor y [0 1] {r(t[1])})"
    if op == "when1":
        return f"(when {r(t[1])})"
    if op == "do":
        return f"(do {r(t[1])} {r(t[2])})"
    if op in ("and", "or"):
        return f"({op} {r(t[1])} {r(t[2])})"
    if op in ("and3", "or3"):
        return f"({op[:-1]} {r(t[1])} {r(t[2])} {r(t[3])})"
    if op == "when":
        return f"(when {r(t[1])} {r(t[2])})"
    if op == "let_x":
        return f"(let [x {r(t[1])}] {r(t[2])})"
    if op == "f2":
        return f"(f2 {t[1]} {r(t[2])} {r(t[3])})"
    if op == "list":
        return f"[{r(t[1])} {r(t[2])}]"
    if op == "add":
        return f"(+ {r(t[1])} {r(t[2])})"
    if op == "while":
        return f"(while {r(t[1])} {r(t[2])})"
    if op == "whileelse":
        return f"(while {r(t[1])} {r(t[2])} (else {r(t[3])}))"
    if op == "for_x":
        return f"(for [x [0 1]] {r(t[1])} {r(t[2])})"
    if op == "forelse":
        return f"(for [x [0 1]] {r(t[1])} {r(t[2])} (else {r(t[3])}))"
    if op == "try_ex":
        return f"(try {r(t[1])} (except [ValueError] {r(t[2])}))"
    if op == "try_fin":
        return f"(try {r(t[1])} (finally {r(t[2])}))"
    if op == "try_full":
        return f"(try {r(t[1])} (except [ValueError] {r(t[2])}) (else {r(t[3])}) (finally {r(t[4])}))"
    if op == "cond1":
        return f"(cond {r(t[1])} {r(t[2])})"
    if op == "cond":
        return f"(cond {r(t[1])} {r(t[2])} {r(t[3])} {r(t[4])})"
    if op == "if":
        return f"(if {r(t[1])} {r(t[2])} {r(t[3])})"
    if op == "get":
        return f"(get [{r(t[1])} {r(t[2])}] {r(t[3])})"
    if op == "cut":
        return f"(cut [{r(t[1])} {r(t[2])}] {r(t[3])})"
    if op == "try_exel":
        return f"(try {r(t[1])} (except [ValueError] {r(t[2])}) (else {r(t[3])}))"
    if op == "cut_hi0":
        return f"(cut [{r(t[1])} 7] {r(t[2])} 0)"
    if op == "cut_step":
        return f"(cut [{r(t[1])} 7 8] {r(t[2])} None {r(t[3])})"
    raise ValueError(op)


# ---------------------------------------------------------------- interpreter
class _Break(BaseException):
    pass


class _Continue(BaseException):
    pass


class _Return(BaseException):
    def __init__(self, v):
        self.v = v


class Diverges(BaseException):
    pass


class Cell:
    __slots__ = ("v", "bound", "comp")

    def __init__(self, v=None, bound=False, comp=False):
        self.v = v
        self.bound = bound
        self.comp = comp      # iteration variable of a comprehension form


class Frame:
    def __init__(self, parent, local_names):
        self.parent = parent
        self.locals = local_names      # None for the module frame
        self.vars = {}


class Closure:
    def __init__(self, params, body, frame, lets):
        self.params, self.body, self.frame, self.lets = params, body, frame, lets


def assigned_names(t, shadow=frozenset(), acc=None):
    """Names assigned in the Python scope that directly contains term t
    (not descending into nested functions; let-/comprehension-bound names are
    renamed by Hy and therefore not assignments of the outer name)."""
    if acc is None:
        acc = set()
    op = t[0]
    if op in ("setv_x", "setx_x"):
        if "x" not in shadow:
            acc.add("x")
    if op == "setv_y":
        if "y" not in shadow:
            acc.add("y")
    if op in ("for_x", "forelse"):
        if "x" not in shadow:
            acc.add("x")
    if op in ("fn0", "defncall"):
        if op == "defncall":
            acc.add("f")
        return acc
    if op == "fn1":
        assigned_names(t[1], shadow, acc)
        return acc
    if op == "let_x":
        assigned_names(t[1], shadow, acc)
        assigned_names(t[2], shadow | {"x"}, acc)
        return acc
    if op == "lfor":
        assigned_names(t[1], shadow | {"y"}, acc)
        return acc
    for k in t[1:]:
        if isinstance(k, tuple):
            assigned_names(k, shadow, acc)
    return acc


class Interp:
    FUEL = 40
    STEP_FUEL = 4000        # evaluation steps (a program of the space with <= 40 effects needs far fewer)

    def __init__(self):
        self.root = ("seq", [])
        self.stack = [self.root]
        self.events = 0
        self.steps = 0
        self.unspecified = None
        self.access = []        # stack of (reads, writes) sets for enclosing Par children

    # ---- trace building
    def ev(self, site, value):
        self.events += 1
        if self.events > self.FUEL:
            raise Diverges()
        self.stack[-1][1].append(("ev", site, _rep(value)))

    def _push(self, kind):
        node = (kind, [])
        self.stack[-1][1].append(node)
        self.stack.append(node)
        return node

    def _pop(self):
        self.stack.pop()

    # ---- variables
    def _note(self, key, write):
        for reads, writes in self.access:
            (writes if write else reads).add(key)

    def lookup(self, env, name):
        frame, lets = env
        if name in lets:
            c = lets[name]
            self._note(id(c), False)
            if not c.bound:
                raise NameError(name)
            return c.v
        f = frame
        first = True
        while f is not None:
            if f.locals is None:
                self._note((id(f), name), False)
                if name in f.vars:
                    return f.vars[name]
                raise NameError(name)
            if name in f.locals:
                self._note((id(f), name), False)
                if name in f.vars:
                    return f.vars[name]
                raise (UnboundLocalError if first else NameError)(name)
            f = f.parent
            first = False
        raise NameError(name)

    def assign(self, env, name, v):
        frame, lets = env
        if name in lets:
            c = lets[name]
            self._note(id(c), True)
            if c.comp and self.unspecified is None:
                # api.rst: iteration variables are local to lfor, but "variables defined
                # within the body ... will be visible outside": which of the two an
                # assignment to the iteration variable inside the body means is not stated
                self.unspecified = "assignment to a comprehension's iteration variable inside its body"
            c.v, c.bound = v, True
            return
        self._note((id(frame), name), True)
        frame.vars[name] = v

    # ---- par groups
    def par(self, env, kids):
        """Evaluate an argument group left to right (canonical order), record
        per-child access sets and abrupt exits; decide 'unspecified'."""
        self._push("par")
        sets = []
        vals = []
        try:
            for k in kids:
                rs, ws = set(), set()
                self.access.append((rs, ws))
                self._push("seq")
                try:
                    vals.append(self.eval(env, k))
                except Diverges:
                    raise
                except BaseException:
                    if len(kids) > 1 and self.unspecified is None:
                        self.unspecified = "abrupt completion escapes a child of an argument group that has siblings"
                    raise
                finally:
                    self._pop()
                    self.access.pop()
                    sets.append((rs, ws))
        finally:
            self._pop()
            for i, (r1, w1) in enumerate(sets):
                for j, (r2, w2) in enumerate(sets):
                    if i != j and (w1 & (r2 | w2)) and self.unspecified is None:
                        self.unspecified = "one child of an argument group writes a variable a sibling reads or writes"
        return vals

    # ---- calls
    def call(self, clo, args):
        names = set(clo.params) | assigned_names(clo.body)
        fr = Frame(clo.frame, names)
        for p, a in zip(clo.params, args):
            fr.vars[p] = a
        # parameters and function-local assignments shadow enclosing let bindings of the same name
        # (api.rst on let: "arguments in nested functions ... can shadow these names")
        lets = {k: c for k, c in clo.lets.items() if k not in names}
        try:
            return self.eval((fr, lets), clo.body)
        except _Return as r:
            return r.v

    def truthy(self, v):
        return bool(v)

    # ---- evaluation
    def eval(self, env, t):
        # a loop that produces no effect at all, e.g. (while (not ((fn [] (return)))) (continue)), never spends
        # effect fuel: evaluation steps are bounded too
        self.steps = getattr(self, "steps", 0) + 1
        if self.steps > self.STEP_FUEL:
            self.events = self.FUEL + 1
        if self.events > self.FUEL:
            # once the fuel is spent nothing else is evaluated: a `finally` or handler that runs while the
            # Diverges signal unwinds must not replace it by an ordinary outcome
            raise Diverges()
        op = t[0]
        E = self.eval
        if op == "log":
            kind = t[2]
            if kind in POOL:
                v = self.lookup(env, kind)
            else:
                v = {"0": 0, "1": 1, "None": None}[kind]
            self.ev(t[1], v)
            return v
        if op == "boom":
            self.ev(t[1], "boom")
            raise KeyError(t[1])
        if op == "raise":
            raise ValueError()
        if op == "break":
            raise _Break()
        if op == "continue":
            raise _Continue()
        if op == "return0":
            raise _Return(None)
        if op == "return":
            raise _Return(E(env, t[1]))
        if op == "not":
            return not E(env, t[1])
        if op in ("setv_x", "setv_y"):
            self.assign(env, op[-1], E(env, t[1]))
            return None
        if op == "setx_x":
            v = E(env, t[1])
            self.assign(env, "x", v)
            return v
        if op == "fn0":
            return self.call(Closure((), t[1], env[0], env[1]), ())
        if op == "fn1":
            (a,) = self.par(env, [t[1]])
            return self.call(Closure(("x",), t[2], env[0], env[1]), (a,))
        if op == "defncall":
            clo = Closure((), t[1], env[0], env[1])
            # defn assigns in the Python scope even under a let of that name; the call reads it
            self._note((id(env[0]), "f"), True)
            self._note((id(env[0]), "f"), False)
            env[0].vars["f"] = clo
            return self.call(clo, ())
        if op in ("with_s", "with_n"):
            site = t[1]
            self.ev(("cm", site, "new"), None)
            self.ev(("cm", site, "enter"), None)
            try:
                v = E(env, t[2])
            except Diverges:
                raise
            except (_Break, _Continue, _Return):
                # not exceptions in Python: __exit__ is called with (None, None, None)
                self.ev(("cm", site, "exit"), None)
                raise
            except BaseException as e:
                self.ev(("cm", site, "exit"), "NameError" if isinstance(e, NameError) else type(e).__name__)
                if op == "with_s":
                    return None
                raise
            else:
                self.ev(("cm", site, "exit"), None)
                return v
        if op == "lfor":
            cell = Cell(comp=True)
            if "y" in assigned_names(t[1]) and self.unspecified is None:
                self.unspecified = "assignment to a comprehension's iteration variable inside its body"
            env2 = (env[0], {**env[1], "y": cell})
            out = []
            for it in (0, 1):
                cell.v, cell.bound = it, True
                out.append(E(env2, t[1]))
            return out
        if op == "when1":
            E(env, t[1])
            return None
        if op == "do":
            E(env, t[1])
            return E(env, t[2])
        if op in ("and", "and3"):
            v = True
            for k in t[1:]:
                v = E(env, k)
                if not v:
                    return v
            return v
        if op in ("or", "or3"):
            v = None
            for k in t[1:]:
                v = E(env, k)
                if v:
                    return v
            return v
        if op == "when":
            if E(env, t[1]):
                return E(env, t[2])
            return None
        if op == "let_x":
            v = E(env, t[1])
            cell = Cell(v, True)
            return E((env[0], {**env[1], "x": cell}), t[2])
        if op == "f2":
            a, b = self.par(env, [t[2], t[3]])
            self.ev(t[1], (a, b))
            return b
        if op == "list":
            return self.par(env, [t[1], t[2]])
        if op == "add":
            a, b = self.par(env, [t[1], t[2]])
            return a + b
        if op == "get":
            a, b, i = self.par(env, [t[1], t[2], t[3]])
            return [a, b][i]
        if op == "cut":
            a, b, i = self.par(env, [t[1], t[2], t[3]])
            return [a, b][slice(i)]
        if op in ("while", "whileelse"):
            broke = False
            while E(env, t[1]):
                try:
                    E(env, t[2])
                except _Break:
                    broke = True
                    break
                except _Continue:
                    continue
            if op == "whileelse" and not broke:
                E(env, t[3])
            return None
        if op in ("for_x", "forelse"):
            broke = False
            for it in (0, 1):
                self.assign(env, "x", it)
                try:
                    E(env, t[1])
                    E(env, t[2])
                except _Break:
                    broke = True
                    break
                except _Continue:
                    continue
            if op == "forelse" and not broke:
                E(env, t[3])
            return None
        if op == "try_ex":
            try:
                return E(env, t[1])
            except ValueError:
                return E(env, t[2])
        if op == "try_fin":
            try:
                return E(env, t[1])
            finally:
                E(env, t[2])
        if op == "try_full":
            try:
                try:
                    E(env, t[1])
                except ValueError:
                    return E(env, t[2])
                else:
                    return E(env, t[3])
            finally:
                E(env, t[4])
        if op == "try_exel":
            try:
                E(env, t[1])
            except ValueError:
                return E(env, t[2])
            else:
                return E(env, t[3])
        if op == "cut_hi0":
            a, lo = self.par(env, [t[1], t[2]])
            return [a, 7][lo:0]
        if op == "cut_step":
            a, lo, st = self.par(env, [t[1], t[2], t[3]])
            return [a, 7, 8][lo:None:st]
        if op == "cond1":
            if E(env, t[1]):
                return E(env, t[2])
            return None
        if op == "cond":
            if E(env, t[1]):
                return E(env, t[2])
            if E(env, t[3]):
                return E(env, t[4])
            return None
        if op == "if":
            return E(env, t[2]) if E(env, t[1]) else E(env, t[3])
        raise ValueError(op)


def _rep(v):
    if isinstance(v, Closure):
        return "<fn>"
    return repr(_plain(v))


def _plain(v):
    if isinstance(v, Closure):
        return "<fn>"
    if isinstance(v, (list, tuple)):
        return type(v)(_plain(e) for e in v)
    return v


def _excname(e):
    if isinstance(e, _Break):
        return "break"
    if isinstance(e, _Continue):
        return "continue"
    if isinstance(e, _Return):
        return "return"
    return type(e).__name__


X0, Y0 = 10, 20

WRAPPERS = ("mod_r", "mod_x", "fn_ret", "fn_x")


def wrap_text(term, wrapper):
    body = render(term)
    if wrapper == "mod_r":
        return f"(setv x {X0} y {Y0})\n(setv r {body})"
    if wrapper == "mod_x":
        return f"(setv x {X0} y {Y0})\n(setv x {body})"
    if wrapper == "fn_ret":
        return f"(defn main [x y] {body})\n(setv out (main {X0} {Y0}))"
    if wrapper == "fn_x":
        return f"(defn main [x y] (setv x {body}) [x y])\n(setv out (main {X0} {Y0}))"
    raise ValueError(wrapper)


def term_in_fn(wrapper):
    return wrapper in ("fn_ret", "fn_x")


def run_model(term, wrapper):
    """Returns dict(outcome=('val',repr)|('exc',name)|('diverges',), trace=tree,
    env={name: repr}, unspecified=reason|None)."""
    I = Interp()
    mod = Frame(None, None)
    env = None
    outcome = None
    try:
        if wrapper in ("mod_r", "mod_x"):
            mod.vars["x"], mod.vars["y"] = X0, Y0
            v = I.eval((mod, {}), term)
            mod.vars["r" if wrapper == "mod_r" else "x"] = v
            outcome = ("val", _rep(v))
        else:
            if wrapper == "fn_ret":
                body = term
                clo = Closure(("x", "y"), body, mod, {})
                v = I.call(clo, (X0, Y0))
                outcome = ("val", _rep(v))
            else:
                names = {"x", "y"} | assigned_names(term)
                fr = Frame(mod, names)
                fr.vars["x"], fr.vars["y"] = X0, Y0
                try:
                    v = I.eval((fr, {}), term)
                    fr.vars["x"] = v
                    if "x" not in fr.vars:
                        raise UnboundLocalError("x")
                    outcome = ("val", _rep([fr.vars["x"], fr.vars["y"]]))
                except _Return as r:
                    outcome = ("val", _rep(r.v))
    except Diverges:
        outcome = ("diverges",)
    except (_Break, _Continue, _Return) as e:
        outcome = ("model-error", _excname(e))
    except BaseException as e:
        outcome = ("exc", type(e).__name__)
    if wrapper in ("mod_r", "mod_x"):
        env = {k: _rep(v) for k, v in mod.vars.items() if k in ("x", "y", "r")}
    return dict(outcome=outcome, trace=I.root, env=env, unspecified=I.unspecified)


# ---------------------------------------------------------------- trace admissibility
def events_of(tree, out=None):
    if out is None:
        out = []
    if tree[0] == "ev":
        out.append((tree[1], tree[2]))
    else:
        for c in tree[1]:
            events_of(c, out)
    return out


def _sites(tree, acc):
    if tree[0] == "ev":
        acc.add(_sk(tree[1]))
    else:
        for c in tree[1]:
            _sites(c, acc)
    return acc


def _sk(site):
    return repr(site)


def admissible(tree, log):
    """Is the flat implementation log (list of (site, value_repr)) a
    linearisation of the model's trace tree?  Returns (ok, reason)."""
    log = [(_sk(s), v) for s, v in log]
    ok, why = _adm(tree, log)
    return ok, why


def _count(tree):
    if tree[0] == "ev":
        return 1
    return sum(_count(c) for c in tree[1])


def _adm(tree, log):
    if tree[0] == "ev":
        if len(log) == 1 and log[0] == (_sk(tree[1]), tree[2]):
            return True, None
        return False, f"expected event {(tree[1], tree[2])}, got {log[:3]}"
    if tree[0] == "seq":
        pos = 0
        for c in tree[1]:
            n = _count(c)
            ok, why = _adm(c, log[pos:pos + n])
            if not ok:
                return ok, why
            pos += n
        if pos != len(log):
            return False, f"{len(log) - pos} extra event(s): {log[pos:pos + 3]}"
        return True, None
    # par: partition by site ownership
    owners = []
    for c in tree[1]:
        owners.append(_sites(c, set()))
    for i in range(len(owners)):
        for j in range(i + 1, len(owners)):
            if owners[i] & owners[j]:
                return None, "argument-group children share effect sites"
    parts = [[] for _ in owners]
    for e in log:
        for k, o in enumerate(owners):
            if e[0] in o:
                parts[k].append(e)
                break
        else:
            return False, f"event {e} belongs to no child of the argument group"
    for c, p in zip(tree[1], parts):
        if len(p) != _count(c):
            return False, f"argument-group child has {len(p)} events, model {_count(c)}"
        ok, why = _adm(c, p)
        if not ok:
            return ok, why
    return True, None
