"""Exhaustive nested Python values for C27 (author prefix pr_).

* JSON-able value specs, `build` (spec -> fresh value), `val_diff` (strict
  structural comparison: type-identical at every node, NaN-aware,
  signed-zero-aware, OrderedDict order-aware);
* tiered exhaustive generators of nested values over the documented types;
* object *graphs* (shared and self-referential containers): enumeration,
  construction, and the acyclic "twin" in which every back-reference is
  replaced by a sentinel that prints as a marker.

Nothing here imports hy at module import time.
"""
import itertools
import math

# ------------------------------------------------------------------ specs -> values

FACTORIES = {"list": list, "int": int, "dict": dict, "set": set, "str": str, "float": float}


def _ns():
    import collections
    import fractions
    return collections, fractions


def build(s):
    import hy.models as M
    C, F = _ns()
    t = s[0]
    if t == "none":
        return None
    if t == "bool":
        return bool(s[1])
    if t == "int":
        return int(s[1])
    if t == "float":
        return float(s[1])
    if t == "complex":
        return complex(float(s[1]), float(s[2]))
    if t == "str":
        return s[1]
    if t == "bytes":
        return s[1].encode("latin-1")
    if t == "bytearray":
        return bytearray(s[1].encode("latin-1"))
    if t == "kw":
        return M.Keyword(s[1], from_parser=True)
    if t == "fraction":
        return F.Fraction(int(s[1]), int(s[2]))
    if t == "range":
        return range(*[int(x) for x in s[1]])
    if t == "slice":
        return slice(build(s[1]), build(s[2]), build(s[3]))
    if t == "list":
        return [build(c) for c in s[1]]
    if t == "tuple":
        return tuple(build(c) for c in s[1])
    if t == "set":
        return set(build(c) for c in s[1])
    if t == "frozenset":
        return frozenset(build(c) for c in s[1])
    if t == "deque":
        return C.deque(build(c) for c in s[1])
    if t == "dict":
        return {build(k): build(v) for k, v in s[1]}
    if t == "odict":
        return C.OrderedDict((build(k), build(v)) for k, v in s[1])
    if t == "counter":
        c = C.Counter()
        for k, v in s[1]:
            c[build(k)] = build(v)
        return c
    if t == "ddict":
        d = C.defaultdict(FACTORIES[s[1]] if s[1] is not None else None)
        for k, v in s[2]:
            d[build(k)] = build(v)
        return d
    if t == "chainmap":
        return C.ChainMap(*[build(m) for m in s[1]])
    raise ValueError("bad value spec %r" % (s,))


def kids(s):
    t = s[0]
    if t in ("list", "tuple", "set", "frozenset", "deque", "chainmap"):
        return list(s[1])
    if t in ("dict", "odict", "counter"):
        return [x for kv in s[1] for x in kv]
    if t == "ddict":
        return [x for kv in s[2] for x in kv]
    if t == "slice":
        return [s[1], s[2], s[3]]
    return []


def size(s):
    return 1 + sum(size(c) for c in kids(s))


def depth(s):
    k = kids(s)
    return 0 if not k and s[0] not in CONTAINER_KINDS else 1 + max([depth(c) for c in k] or [0])


def walk(s):
    yield s
    for c in kids(s):
        yield from walk(c)


CONTAINER_KINDS = ("list", "tuple", "set", "frozenset", "deque", "dict", "odict", "counter", "ddict", "chainmap", "slice")


def hashable(s):
    t = s[0]
    if t in ("list", "set", "deque", "dict", "odict", "counter", "ddict", "chainmap", "bytearray"):
        return False
    if t in ("tuple", "frozenset"):
        return all(hashable(c) for c in s[1])
    if t == "slice":
        return False        # hashable only from 3.12 on; kept out of keys/sets
    return True


def type_name(s):
    t = s[0]
    if t == "ddict":
        return "defaultdict(factory=%s)" % (s[1],)
    return {"odict": "OrderedDict", "counter": "Counter", "chainmap": "ChainMap", "kw": "Keyword",
            "fraction": "Fraction", "none": "NoneType"}.get(t, t)


# ------------------------------------------------------------------ strict comparison

def _same_float(a, b):
    if math.isnan(a) or math.isnan(b):
        return "" if (math.isnan(a) and math.isnan(b)) else "value"
    if a != b:
        return "value"
    if math.copysign(1.0, a) != math.copysign(1.0, b):
        return "zero-sign"
    return ""


def _tn(x):
    return type(x).__module__ + "." + type(x).__qualname__


def val_diff(a, b, path=(), notes=None):
    """First difference (pre-order) or None.  `notes` (a list) receives
    remarks about differences the property does not demand (plain-dict order)."""
    import hy.models as M
    C, F = _ns()

    def D(field, va=None, vb=None):
        return dict(path=list(path), field=field, node=type(a).__name__,
                    a=repr(a)[:80] if va is None else va, b=repr(b)[:80] if vb is None else vb)

    if type(a) is not type(b):
        return D("type", _tn(a), _tn(b))
    if a is None or isinstance(a, (bool, int, str, bytes, bytearray, F.Fraction)):
        return None if a == b else D("value")
    if isinstance(a, float):
        f = _same_float(a, b)
        return D(f) if f else None
    if isinstance(a, complex):
        for p in ("real", "imag"):
            f = _same_float(getattr(a, p), getattr(b, p))
            if f:
                return D(f)
        return None
    if isinstance(a, M.Keyword):
        return None if a.name == b.name else D("value")
    if isinstance(a, range):
        return None if a == b else D("value")
    if isinstance(a, slice):
        for i, p in enumerate(("start", "stop", "step")):
            d = val_diff(getattr(a, p), getattr(b, p), path + (p,), notes)
            if d:
                return d
        return None
    if isinstance(a, (list, tuple, C.deque)):
        if len(a) != len(b):
            return D("length", len(a), len(b))
        for i, (x, y) in enumerate(zip(a, b)):
            d = val_diff(x, y, path + (i,), notes)
            if d:
                return d
        return None
    if isinstance(a, (set, frozenset)):
        if len(a) != len(b):
            return D("length", len(a), len(b))
        rest = list(b)
        for x in a:
            for j, y in enumerate(rest):
                if val_diff(x, y) is None:
                    del rest[j]
                    break
            else:
                return D("element", repr(x)[:80], "no strictly equal element in " + repr(b)[:60])
        return None
    if isinstance(a, C.ChainMap):
        return val_diff(a.maps, b.maps, path + ("maps",), notes)
    if isinstance(a, dict):
        if isinstance(a, C.defaultdict) and a.default_factory is not b.default_factory:
            return D("default_factory", repr(a.default_factory), repr(b.default_factory))
        if len(a) != len(b):
            return D("length", len(a), len(b))
        ia, ib = list(a.items()), list(b.items())
        ordered_ok = all(val_diff(ka, kb) is None for (ka, _), (kb, _) in zip(ia, ib))
        if not ordered_ok:
            # same pairs in another order?
            rest = list(ib)
            perm = []
            for ka, va in ia:
                for j, (kb, vb) in enumerate(rest):
                    if val_diff(ka, kb) is None:
                        perm.append((ka, va, vb))
                        del rest[j]
                        break
                else:
                    return D("key", repr(ka)[:80], "no strictly equal key in " + repr(b)[:60])
            if isinstance(a, C.OrderedDict):
                return D("order", repr(list(a))[:80], repr(list(b))[:80])
            if notes is not None:
                notes.append("dict-order")
            for ka, va, vb in perm:
                d = val_diff(va, vb, path + (repr(ka)[:20],), notes)
                if d:
                    return d
            return None
        for (ka, va), (kb, vb) in zip(ia, ib):
            d = val_diff(va, vb, path + (repr(ka)[:20],), notes)
            if d:
                return d
        return None
    try:
        return None if a == b else D("value")
    except Exception:
        return D("value")


# ------------------------------------------------------------------ leaves

def I(n):
    return ["int", str(n)]


def Fl(x):
    return ["float", x]


NONE = ["none"]
LEAVES_FULL = [
    NONE, ["bool", True], ["bool", False],
    I(0), I(-1), I(10 ** 30),
    Fl("1.5"), Fl("-0.0"), Fl("inf"), Fl("-inf"), Fl("nan"), Fl("1e-07"), Fl("1e+22"), Fl("5e-324"),
    ["complex", "0.0", "1.0"], ["complex", "nan", "inf"], ["complex", "-inf", "nan"], ["complex", "1.0", "-2.0"],
    ["complex", "0.0", "-0.0"], ["complex", "-0.0", "-0.0"], ["complex", "-0.0", "0.0"], ["complex", "-0.0", "1.5"],
    ["complex", "1e+22", "1e-07"],
    ["str", ""], ["str", 'a"b'], ["str", "a'b\\"], ["str", "\x00\x1f\x7f\n\r\t\xe9 \U0001d538\ud800"], ["str", 'ub"\''], ["str", "it\\'s"], ["str", "\\\\'\""], ["str", "\\"],
    ["str", "{x} #[[ ]] ;"],
    ["bytes", ""], ["bytes", "a\"'\\\xff\x00\n"], ["bytes", "'"], ["bytes", "it\\'s"], ["bytearray", "\\'"],
    ["bytearray", ""], ["bytearray", "\xff\"'"],
    ["kw", "kw"], ["kw", ""],
    ["fraction", "0", "1"], ["fraction", "-1", "3"], ["fraction", str(10 ** 30), "7"],
    ["range", ["0"]], ["range", ["5"]], ["range", ["1", "5"]], ["range", ["0", "5", "2"]], ["range", ["5", "0", "-1"]],
    ["range", ["1", "5", "1"]], ["range", ["0", "5", "1"]], ["range", [str(10 ** 30)]], ["range", ["-3", "3", "3"]],
]
# every None-pattern of slice over ints
for _pat in itertools.product((False, True), repeat=3):
    LEAVES_FULL.append(["slice"] + [(I(i + 1) if use else NONE) for i, use in enumerate(_pat)])
LEAVES_FULL.append(["slice", I(0), I(5), I(1)])
LEAVES_FULL.append(["slice", ["str", "a"], Fl("nan"), ["kw", "k"]])

LEAVES_SMALL = [NONE, I(-1), Fl("nan"), ["str", 'a"b'], ["bytes", "\xff\""], ["kw", "kw"]]
LEAVES_TINY = [NONE, Fl("-0.0"), ["str", "a'b\\"]]
KEYS_SMALL = [I(1), ["str", "a"], ["kw", "k"], Fl("nan"), ["tuple", [I(1), NONE]], ["bool", True]]

SEQ_KINDS = ("list", "tuple", "deque", "set", "frozenset")
MAP_KINDS = (("dict",), ("odict",), ("counter",), ("ddict", None), ("ddict", "list"), ("ddict", "int"))


def _mk_map(kind, pairs):
    if kind[0] == "ddict":
        return ["ddict", kind[1], pairs]
    return [kind[0], pairs]


def _seq_ok(kind, children):
    if kind in ("set", "frozenset"):
        if not all(hashable(c) for c in children):
            return False
        # two children that are == collapse to one element: still a legal value
    return True


def level1(leaves, small, keys_small):
    """Depth-1 values: every container kind x 0..2 children."""
    out = []
    for k in SEQ_KINDS:
        out.append([k, []])
        for a in leaves:
            if _seq_ok(k, [a]):
                out.append([k, [a]])
        for a, b in itertools.product(leaves, repeat=2):
            if _seq_ok(k, [a, b]):
                out.append([k, [a, b]])
    for mk in MAP_KINDS:
        vals = [I(2), I(0), I(-1)] if mk[0] == "counter" else leaves
        out.append(_mk_map(mk, []))
        for key in leaves:
            if hashable(key):
                for v in vals:
                    out.append(_mk_map(mk, [[key, v]]))
        vs = [I(2), I(-1)] if mk[0] == "counter" else small
        for k1, k2 in itertools.permutations(keys_small, 2):
            if k1 == ["bool", True] and k2 == I(1) or k2 == ["bool", True] and k1 == I(1):
                continue        # True == 1: one key
            for v1, v2 in itertools.product(vs, repeat=2):
                out.append(_mk_map(mk, [[k1, v1], [k2, v2]]))
    dpool = [["dict", []], ["dict", [[I(1), ["str", "a"]]]], ["dict", [[["kw", "k"], Fl("nan")], [["str", "a"], NONE]]]]
    for n in (1, 2, 3):
        for ms in itertools.product(dpool, repeat=n):
            out.append(["chainmap", list(ms)])
    for tr in itertools.product(small + [I(2)], repeat=3):
        out.append(["slice"] + list(tr))
    return out


def nest(inner, sib, kinds_seq=SEQ_KINDS, kinds_map=MAP_KINDS):
    """Every container kind around one `inner` value, alone and with one
    sibling leaf on either side (as element, as dict value, as dict key when
    hashable, as a ChainMap map when it is a dict, as a slice part)."""
    out = []
    for v in inner:
        for k in kinds_seq:
            if _seq_ok(k, [v]):
                out.append([k, [v]])
                for s in sib:
                    if _seq_ok(k, [s]):
                        out.append([k, [s, v]])
                        out.append([k, [v, s]])
        for mk in kinds_map:
            if mk[0] != "counter":
                out.append(_mk_map(mk, [[I(1), v]]))
                for s in sib:
                    out.append(_mk_map(mk, [[["str", "a"], s], [I(1), v]]))
            if hashable(v):
                out.append(_mk_map(mk, [[v, I(2)]]))
        if v[0] == "dict":
            out.append(["chainmap", [v]])
            out.append(["chainmap", [["dict", [[I(1), NONE]]], v]])
        out.append(["slice", v, NONE, NONE])
        out.append(["slice", NONE, v, I(1)])
    return out


def dedupe(specs):
    import json
    seen = set()
    out = []
    for s in specs:
        k = json.dumps(s, ensure_ascii=True, separators=(",", ":"))
        if k not in seen:
            seen.add(k)
            out.append(s)
    return out


_CACHE = {}


def _key(s):
    import json
    return json.dumps(s, ensure_ascii=True, separators=(",", ":"))


def _base(name):
    """Inner lists the parts are defined over (cached per process)."""
    if name not in _CACHE:
        if name == "l1_full":
            v = dedupe(list(LEAVES_FULL) + level1(LEAVES_FULL, LEAVES_SMALL, KEYS_SMALL))
        elif name == "l1_small":
            v = dedupe(level1(LEAVES_SMALL, LEAVES_TINY, KEYS_SMALL[:3]))
        elif name == "l1_small_keys":
            v = set(_key(x) for x in _base("l1_small"))
        elif name == "l2_tiny":
            v = dedupe(nest(dedupe(level1(LEAVES_TINY, LEAVES_TINY[:1], KEYS_SMALL[:2])), []))
        else:
            raise KeyError(name)
        _CACHE[name] = v
    return _CACHE[name]


PARTS = {
    "quick": [("A", "l1_full"), ("B", "l1_small")],
    "thorough": [("A", "l1_full"), ("B2", "l1_small"), ("C", "l2_tiny"), ("D", "l1_full")],
}


def parts(tier):
    """[(part name, length of the inner list it is sharded over)]"""
    return [(nm, len(_base(inner))) for nm, inner in PARTS[tier]]


def part_specs(tier, name, lo, hi):
    """The value specs of one shard: part `name` restricted to inner[lo:hi].
    A: leaves and depth-1 values themselves.  B/B2: every kind around each
    depth-1 value over the small pool (siblings: 2 tiny / all small leaves).
    C: depth 3 over the tiny pool.  D: every kind around each depth-1 value
    over ALL leaves (those already in B2 excluded)."""
    inner = _base(dict(PARTS[tier])[name])[lo:hi]
    if name == "A":
        return inner
    if name == "B":
        return dedupe(nest(inner, LEAVES_TINY[:2]))
    if name == "B2":
        return dedupe(nest(inner, LEAVES_SMALL))
    if name == "C":
        return dedupe(nest(inner, LEAVES_TINY[:1]))
    if name == "D":
        skip = _base("l1_small_keys")
        return dedupe(nest([x for x in inner if _key(x) not in skip and x[0] in CONTAINER_KINDS], []))
    raise KeyError(name)


def tree_bounds(tier):
    return {
        "leaves": len(LEAVES_FULL), "small_leaves": LEAVES_SMALL, "tiny_leaves": LEAVES_TINY, "small_keys": KEYS_SMALL,
        "sequence_kinds": list(SEQ_KINDS), "mapping_kinds": [list(m) for m in MAP_KINDS] + [["chainmap"]], "other": ["slice (3 parts)"],
        "depth1": "every kind x 0..2 children over all leaves (2 pairs over the small key/value pools for mappings; ChainMap of 1..3 maps; slice over the small pool cubed)",
        "depth2": ("every kind around every depth-1 value over the small leaf pool, alone and with one sibling leaf on either side"
                   + ("" if tier == "quick" else "; every kind around every depth-1 value over ALL leaves; depth 3 over the tiny pool")),
    }


# ------------------------------------------------------------------ graphs (sharing and self-reference)

GRAPH_TYPES = ("list", "dict", "deque", "odict", "ddict", "counter", "chainmap", "tuple")
PLACEHOLDER = {"list": "[...]", "dict": "{...}", "deque": "(deque [...])"}   # others: the documented default "..."
LEAF = "L"


class Marker:
    """Stands for a back-reference in the acyclic twin; prints (through the
    documented repr() fallback of hy.repr) as a marker naming the node type."""

    def __init__(self, typ):
        self.typ = typ

    def __repr__(self):
        return "\x01" + self.typ + "\x02"


def _child_lists(k, full):
    refs = [LEAF] + list(range(k))
    if full:
        out = [[a] for a in refs] + [[a, b] for a in refs for b in refs]
    else:
        out = [[r] for r in range(k)] + [[LEAF, r] for r in range(k)] + [[r, LEAF] for r in range(k)] + [[LEAF]]
    return out


def _canonical(nodes):
    """Nodes numbered in DFS preorder from node 0 and all reachable."""
    order = []

    def go(i):
        if i in order:
            return
        order.append(i)
        for c in nodes[i][1]:
            if c != LEAF:
                go(c)
    go(0)
    return order == list(range(len(nodes)))


def graphs(tier):
    """Every object graph with k nodes (k <= 2 with every child list of length
    1..2 over {leaf, node refs}; k = 3 with child lists {[r], [leaf r], [r leaf],
    [leaf]}), every assignment of node types, root = node 0, all nodes
    reachable, numbered canonically.  A graph is [[type, [children]], ...]."""
    out = []
    for k in (1, 2, 3):
        types = GRAPH_TYPES if (k < 3 or tier != "quick") else ("list", "dict", "deque", "odict", "tuple")
        cls = _child_lists(k, full=(k < 3))
        for shape in itertools.product(cls, repeat=k):
            proto = [["?", list(ch)] for ch in shape]
            if not _canonical(proto):
                continue
            for ts in itertools.product(types, repeat=k):
                g = [[t, list(ch)] for t, ch in zip(ts, shape)]
                if _buildable(g):
                    out.append(g)
    return out


def _buildable(g):
    # a tuple must be created with its children: they must be leaves or
    # mutable nodes (never tuples), and a tuple cannot reference itself
    for i, (t, ch) in enumerate(g):
        if t == "tuple":
            for c in ch:
                if c != LEAF and g[c][0] == "tuple":
                    return False
    return True


def is_cyclic(g):
    state = {}

    def go(i):
        if state.get(i) == 1:
            return True
        if state.get(i) == 2:
            return False
        state[i] = 1
        for c in g[i][1]:
            if c != LEAF and go(c):
                return True
        state[i] = 2
        return False
    return go(0)


def _new(t):
    C, _ = _ns()
    return {"list": list, "dict": dict, "deque": C.deque, "odict": C.OrderedDict,
            "ddict": lambda: C.defaultdict(None), "counter": C.Counter, "chainmap": C.ChainMap}[t]()


def _put(t, obj, pos, child):
    if t in ("list", "deque"):
        obj.append(child)
    elif t == "counter":
        obj["ab"[pos]] = child
    else:
        obj[pos] = child


def build_graph(g, leaf=7):
    """The real (possibly shared / self-referential) object for node 0."""
    objs = {}
    for i, (t, ch) in enumerate(g):
        if t != "tuple":
            objs[i] = _new(t)
    for i, (t, ch) in enumerate(g):
        if t == "tuple":
            objs[i] = tuple(leaf if c == LEAF else objs[c] for c in ch)
    for i, (t, ch) in enumerate(g):
        if t != "tuple":
            for pos, c in enumerate(ch):
                _put(t, objs[i], pos, leaf if c == LEAF else objs[c])
    return objs[0]


def build_twin(g, leaf=7):
    """Tree expansion of the graph from node 0: shared nodes are copied, a
    reference to a node that is on the current path becomes Marker(type)."""
    def go(i, path):
        t, ch = g[i]
        if i in path:
            return Marker(t)
        vals = [leaf if c == LEAF else go(c, path + (i,)) for c in ch]
        if t == "tuple":
            return tuple(vals)
        o = _new(t)
        for pos, v in enumerate(vals):
            _put(t, o, pos, v)
        return o
    return go(0, ())


def expected_pattern(twin_text):
    """Regex for the text hy.repr must give for the real object, from the text
    it gives for the twin: each marker may be the documented default "..." or
    the container's own placeholder."""
    import re
    parts = re.split("\x01([a-z]+)\x02", twin_text)
    out = []
    for n, p in enumerate(parts):
        if n % 2 == 0:
            out.append(re.escape(p))
        else:
            alts = ["..."] + ([PLACEHOLDER[p]] if p in PLACEHOLDER else [])
            out.append("(?:" + "|".join(re.escape(a) for a in alts) + ")")
    return "".join(out)
