"""C17 helpers: multi-line rendering of L-terms (mc/ref/lang.py) with line spans.

Every subform is rendered on lines of its own: the opening delimiter and head
of a form on one line, each child below it, the closing delimiter on a line of
its own.  The start line of a form therefore differs from the start line of
each of its subforms and from the start line of its siblings, so a traceback
line number identifies one form.

A program has exactly one *raising leaf* (the term's single ("boom", i) node).
It is rendered in one of the SHAPES below; the renderer returns the 1-based
line span within which the documentation/property lets the traceback line lie:
the raising form's own span, or, for a form that exists only in a macro's
template, the span of the macro call that produced it.

Pure functions of their arguments; no Hy import.
"""
from mc.ref import lang

# ---------------------------------------------------------------- layouts
# op -> list of pieces; an int k is child slot k (1-based index into the
# numbered term tuple *after* any site-id field), a str is a literal line.
# "{i}" in a literal is the effect-site id of with_s/with_n/f2.
LAYOUT = {
    "return": ["(return", 1, ")"],
    "not": ["(not", 1, ")"],
    "setv_x": ["(setv x", 1, ")"],
    "setv_y": ["(setv y", 1, ")"],
    "setx_x": ["(setx x", 1, ")"],
    "fn0": ["((fn []", 1, ")", ")"],
    "fn1": ["((fn [x]", 2, ")", 1, ")"],
    "defncall": ["(do", "(defn f []", 1, ")", "(f)", ")"],
    "with_s": ["(with [(cm {i} True)]", 1, ")"],
    "with_n": ["(with [(cm {i} False)]", 1, ")"],
    "lfor": ["(lfor y [0 1]", 1, ")"],
    "when1": ["(when", 1, ")"],
    "do": ["(do", 1, 2, ")"],
    "and": ["(and", 1, 2, ")"],
    "or": ["(or", 1, 2, ")"],
    "and3": ["(and", 1, 2, 3, ")"],
    "or3": ["(or", 1, 2, 3, ")"],
    "when": ["(when", 1, 2, ")"],
    "let_x": ["(let [x", 1, "]", 2, ")"],
    "f2": ["(f2 {i}", 1, 2, ")"],
    "list": ["[", 1, 2, "]"],
    "add": ["(+", 1, 2, ")"],
    "while": ["(while", 1, 2, ")"],
    "whileelse": ["(while", 1, 2, "(else", 3, ")", ")"],
    "for_x": ["(for [x [0 1]]", 1, 2, ")"],
    "forelse": ["(for [x [0 1]]", 1, 2, "(else", 3, ")", ")"],
    "try_ex": ["(try", 1, "(except [ValueError]", 2, ")", ")"],
    "try_fin": ["(try", 1, "(finally", 2, ")", ")"],
    "try_full": ["(try", 1, "(except [ValueError]", 2, ")", "(else", 3, ")", "(finally", 4, ")", ")"],
    "cond1": ["(cond", 1, 2, ")"],
    "cond": ["(cond", 1, 2, 3, 4, ")"],
    "if": ["(if", 1, 2, 3, ")"],
    "get": ["(get", "[", 1, 2, "]", 3, ")"],
    "cut": ["(cut", "[", 1, 2, "]", 3, ")"],
}
SITED = ("with_s", "with_n", "f2")

ATOMS = {"raise": "(raise (ValueError))", "break": "(break)", "continue": "(continue)", "return0": "(return)"}


def kids_of(nt):
    """(site_id or None, [children]) of a numbered term."""
    if nt[0] in SITED:
        return nt[1], list(nt[2:])
    if nt[0] in ("log", "boom") or nt[0] in ATOMS:
        return None, []
    return None, list(nt[1:])


# ---------------------------------------------------------------- raising-leaf shapes
# name -> (lines with {i}, (first,last) 0-based line offsets of the expected span
#          relative to the first line of the leaf, macros needed, exception kind)
# Exception kinds: "call" = the marker exception raised by the plain function
# `boom` (the compiled module's innermost frame is the line of the call
# expression), other kinds raise in the compiled code itself.
SHAPES = {
    # ---- a call expression read from the source text
    "plain": (["(boom {i})"], (0, 0), (), "call"),
    "split": (["(boom", "{i}", ")"], (0, 2), (), "call"),
    "meth": (["(o.boom", "{i}", ")"], (0, 2), (), "call"),
    "dotmeth": (["(.boom", "o", "{i}", ")"], (0, 3), (), "call"),
    # ---- other raising forms read from the source text
    "raise": (["(raise", "(Marker {i})", ")"], (0, 2), (), "raise"),
    "div": (["(/", "{i}", "0", ")"], (0, 3), (), "div"),
    "index": (["(get", "{}", "{i}", ")"], (0, 3), (), "index"),
    "name": (["nosuch{i}"], (0, 0), (), "name"),
    "attr": (["o.nosuch{i}"], (0, 0), (), "attr"),
    "fstr": (["f\"a{(boom {i})}b\""], (0, 0), (), "call"),
    # the raising form is (in) the FIRST ITERABLE of a comprehension: a real one, and one lowered to a generator function
    "iter_native": (["(lfor q", "[(boom {i})]", "q", ")"], (1, 1), (), "call"),
    "iter_lowered": (["(lfor q", "[(boom {i})]", ":do (log 0 0)", "q", ")"], (1, 1), (), "call"),
    "iter_lowered_gfor": (["(list (gfor q", "(get", "[[1]]", "(boom {i})", ")", ":do (log 0 0)", "q", "))"], (3, 3), (), "call"),
    # an augmented assignment whose in-place operation itself raises (o.acc.__iadd__ raises Marker(v)):
    # one operand, and several operands (documented as (+= x (+ a b)))
    "aug1": (["(+= o.acc", "{i}", ")"], (0, 2), (), "raise"),
    "aug2": (["(+= o.acc", "{i}", "0", ")"], (0, 3), (), "raise"),
    # ---- the raising form is the ARGUMENT of a user macro: it keeps its own position
    "arg_ident": (["(m-ident", "(boom {i})", ")"], (1, 1), ("m-ident",), "call"),
    "arg_qq": (["(m-qq", "(boom {i})", ")"], (1, 1), ("m-qq",), "call"),
    "arg_splice": (["(m-splice", "(log 0 0)", "(boom {i})", ")"], (2, 2), ("m-splice",), "call"),
    "arg_nested": (["(m-nested", "(boom {i})", ")"], (1, 1), ("m-qq", "m-nested"), "call"),
    # ---- the raising form exists only in a macro TEMPLATE: the macro call's position
    "tmpl": (["(t-boom", "{i}", ")"], (0, 2), ("t-boom",), "call"),
    "tmpl_deep": (["(t-deep", "{i}", ")"], (0, 2), ("t-deep",), "call"),
    "tmpl_raise": (["(t-raise", "{i}", ")"], (0, 2), ("t-raise",), "raise"),
    "tmpl_fstr": (["(t-fstr", "{i}", ")"], (0, 2), ("t-fstr",), "call"),
    # the macro returns a model object that is created ONCE (a quoted parameter default) and the macro
    # is expanded at two places; the first expansion (never executed) is on the leaf's second line
    "tmpl_shared": (["(do", "(when False (t-shared 0))", "(t-shared", "{i}", ")", ")"], (2, 4), ("t-shared",), "shared"),
    "tmpl_shared_atom": (["(do", "(when False (t-shared-atom 0))", "(t-shared-atom", "{i}", ")", ")"], (2, 4), ("t-shared-atom",), "shared"),
    # "ptmpl": the PARENT form of the leaf is a macro template (generated per case), see render_program
}
SHAPE_ORDER = ["plain", "split", "meth", "dotmeth", "raise", "div", "index", "name", "attr", "fstr", "aug1", "aug2",
               "iter_native", "iter_lowered", "iter_lowered_gfor",
               "arg_ident", "arg_qq", "arg_splice", "arg_nested", "tmpl", "tmpl_deep", "tmpl_raise", "tmpl_fstr",
               "tmpl_shared", "tmpl_shared_atom", "ptmpl"]
TEMPLATE_SHAPES = ("tmpl", "tmpl_deep", "tmpl_raise", "tmpl_fstr", "tmpl_shared", "tmpl_shared_atom", "ptmpl")
# macros that hold a model object of their own: defined afresh for every case
STATEFUL_MACROS = ("t-shared", "t-shared-atom")
ARG_SHAPES = ("arg_ident", "arg_qq", "arg_splice", "arg_nested")

MACROS = {
    "m-ident": "(defmacro m-ident [form] form)",
    "m-qq": "(defmacro m-qq [form] `(do (log 0 0) ~form))",
    "m-splice": "(defmacro m-splice [#* body] `(do ~@body))",
    "m-nested": "(defmacro m-nested [form] `(m-qq ~form))",
    "m-when": "(defmacro m-when [form] `(when True ~form))",
    "t-boom": "(defmacro t-boom [n] `(boom ~n))",
    "t-deep": "(defmacro t-deep [n] `[(log 0 0) (boom ~n)])",
    "t-raise": "(defmacro t-raise [n] `(raise (Marker ~n)))",
    "t-fstr": "(defmacro t-fstr [n] `f\"a{(boom ~n)}\")",
    "t-shared": "(defmacro t-shared [n [form '(nosuch-shared 1)]] form)",
    "t-shared-atom": "(defmacro t-shared-atom [n [form 'nosuch-shared]] form)",
}

# whole-term wrappers: the complete term (with the raising leaf somewhere inside)
# is the argument of a user macro.  name -> (macro names, head line)
TOPS = {
    "none": ((), None),
    "ident": (("m-ident",), "(m-ident"),
    "qq": (("m-qq",), "(m-qq"),
    "splice": (("m-splice",), "(m-splice"),
    "nested": (("m-qq", "m-nested"), "(m-nested"),
    "when": (("m-when",), "(m-when"),
}
TOP_ORDER = ["none", "ident", "qq", "splice", "nested", "when"]

X0, Y0 = lang.X0, lang.Y0


def boom_path(nt, path=()):
    """Path (tuple of child indices into kids_of) of the single boom leaf, or None."""
    if nt[0] == "boom":
        return path
    _, kids = kids_of(nt)
    for k, c in enumerate(kids):
        p = boom_path(c, path + (k,))
        if p is not None:
            return p
    return None


def count_boom(t):
    return (1 if t[0] == "boom" else 0) + sum(count_boom(k) for k in t[1:] if isinstance(k, tuple))


def oneline(nt, subst=None):
    """Single-line rendering (used for macro templates).  `subst`: for the direct
    children of nt only, a list of replacement texts (None = render the child)."""
    op = nt[0]
    if op == "log":
        return f"(log {nt[1]} {nt[2]})"
    if op == "boom":
        return f"(boom {nt[1]})"
    if op in ATOMS:
        return ATOMS[op]
    site, kids = kids_of(nt)
    out = []
    for p in LAYOUT[op]:
        if isinstance(p, int):
            if subst is not None and subst[p - 1] is not None:
                out.append(subst[p - 1])
            else:
                out.append(oneline(kids[p - 1]))
        else:
            out.append(p.replace("{i}", str(site)))
    return " ".join(out)


class Rendered:
    __slots__ = ("lines", "span", "leaf_span", "macros", "exc_kind", "template", "spans")

    def __init__(self):
        self.lines = []
        self.span = None        # expected (first, last) 1-based lines for the traceback
        self.leaf_span = None   # span of the text that stands for the raising leaf
        self.macros = []
        self.exc_kind = "call"
        self.template = False
        self.spans = []         # (path, first, last) of every subform (1-based, program lines)


def _emit(R, nt, shape, depth, path, target):
    """Append the lines of nt to R.lines.  target = path of the boom leaf."""
    ind = " " * depth
    first = len(R.lines) + 1
    op = nt[0]
    if op == "boom":
        lines, (a, b), macros, kind = SHAPES[shape]
        for ln in lines:
            R.lines.append(ind + ln.replace("{i}", str(nt[1])))
        R.leaf_span = (first, first + len(lines) - 1)
        R.span = (first + a, first + b)
        R.macros.extend(macros)
        R.exc_kind = kind
        R.template = shape in TEMPLATE_SHAPES
    elif op == "log":
        R.lines.append(ind + f"(log {nt[1]} {nt[2]})")
    elif op in ATOMS:
        R.lines.append(ind + ATOMS[op])
    else:
        site, kids = kids_of(nt)
        if shape == "ptmpl" and target is not None and path == target[:-1]:
            # this form is produced by a one-off macro whose template is the form
            # itself with the raising leaf in place; the other children are arguments
            k = target[-1]
            names = "abcd"
            subst = [None if j == k else "~" + names[j] for j in range(len(kids))]
            params = [names[j] for j in range(len(kids)) if j != k]
            R.macros.append("(defmacro t-parent [" + " ".join(params) + "] `" + oneline(nt, subst) + ")")
            R.lines.append(ind + "(t-parent")
            for j, c in enumerate(kids):
                if j != k:
                    _emit(R, c, "plain", depth + 1, path + (j,), None)
            R.lines.append(ind + ")")
            last = len(R.lines)
            R.span = R.leaf_span = (first, last)
            R.exc_kind = "call"
            R.template = True
        else:
            for p in LAYOUT[op]:
                if isinstance(p, int):
                    _emit(R, kids[p - 1], shape, depth + 1, path + (p - 1,), target)
                else:
                    R.lines.append(ind + p.replace("{i}", str(site)))
    R.spans.append((path, first, len(R.lines)))


def render_program(nt, shape, top, w_fn):
    """nt: numbered term with exactly one boom leaf.  Returns (text, Rendered) or
    None if the shape does not apply (ptmpl needs a parent form)."""
    target = boom_path(nt)
    if shape == "ptmpl" and not target:
        return None
    body = Rendered()
    _emit(body, nt, shape, 0, (), target)
    tmacros, thead = TOPS[top]
    macro_defs = []
    for m in list(tmacros) + body.macros:
        d = m if m.startswith("(defmacro") else MACROS[m]
        if d not in macro_defs:
            macro_defs.append(d)
    # the macros are NOT part of the program text: the harness defines them in
    # the module before compiling (like macros obtained by `require`)
    pre = ["; C17 generated program (line 1 holds no code: the no-position fallback is line 1)"]
    depth = 1
    if w_fn:
        pre.append(f"(defn main [x y]")
        post = [")", f"(setv out (main {X0} {Y0}))"]
    else:
        pre.append(f"(setv x {X0} y {Y0})")
        pre.append("(setv r")
        post = [")"]
    if thead:
        pre.append(" " + thead)
        post.insert(0, " )")
        depth = 2
    off = len(pre)
    ind = " " * depth
    R = Rendered()
    R.lines = pre + [ind + ln for ln in body.lines] + post
    R.span = (body.span[0] + off, body.span[1] + off)
    R.leaf_span = (body.leaf_span[0] + off, body.leaf_span[1] + off)
    R.macros = macro_defs
    R.exc_kind = body.exc_kind
    R.template = body.template
    R.spans = [(p, a + off, b + off) for p, a, b in body.spans]
    return "\n".join(R.lines) + "\n", R


# ---------------------------------------------------------------- contexts (depth-d one-hole paths)
def contexts(depth, in_fn, in_loop):
    if depth == 0:
        yield ()
        return
    for op in lang.ARITY:
        for k in range(lang.ARITY[op]):
            f, l = lang.slot_ctx(op, k, in_fn, in_loop)
            for rest in contexts(depth - 1, f, l):
                yield ((op, k),) + rest


def plug(path, filler):
    """Fill the hole with `filler`; siblings: a false loop condition / iteration
    clause left of the hole are canonical effect leaves so that the hole is
    reached wherever the construct allows it."""
    if not path:
        return filler
    (op, k), rest = path[0], path[1:]
    kids = []
    for j in range(lang.ARITY[op]):
        if j == k:
            kids.append(plug(rest, filler))
        else:
            v = SIBLING.get((op, j, k), "1")
            kids.append(v if isinstance(v, tuple) else ("L", v))
    return (op,) + tuple(kids)


# (op, sibling slot, hole slot) -> leaf value making the hole reachable where possible
SIBLING = {
    ("or", 0, 1): "0", ("or3", 0, 1): "0", ("or3", 0, 2): "0", ("or3", 1, 2): "0",
    ("if", 0, 2): "0", ("cond", 0, 2): "0", ("cond", 0, 3): "0",
    ("while", 0, 1): "x", ("whileelse", 0, 1): "x", ("whileelse", 0, 2): "0",
    ("get", 2, 0): "0", ("get", 2, 1): "0", ("cut", 2, 0): "0", ("cut", 2, 1): "0",
    ("try_ex", 0, 1): ("raise",), ("try_full", 0, 1): ("raise",),
}
