"""Reference model for Hy numeric literals (C22).

A direct transcription of docs/syntax.rst, section "Numeric literals", and of
the property statement.  It knows nothing about how Hy implements the reader.
CPython itself is the value oracle: `ast.parse` decides what a Python numeric
literal is and what it is worth; `complex()` decides what "a complex literal
as understood by the constructor for complex" is.

classify(s) -> Ref(cls, typ, value, rule)

  cls == "num"     the documentation says `s` is the number `value` of Python
                   type `typ` (int / float / complex)
  cls == "notnum"  the documentation says `s` is not a number: it must read as
                   a symbol, a dotted form, or be a dotted-identifier syntax
                   error (see expected_nonnumber)
  cls == "unspec"  the documentation leaves `s` open (weak oracle only)

`rule` names the documentation sentence that decided the case; it is what the
check prints in its outcome classes and puts into disagreement fields.

Documentation sentences encoded (syntax.rst):

 D1 "All of Python's syntax for numeric literals is supported in Hy, resulting
     in an Integer, Float, or Complex."  A leading sign is accepted on top of
     a literal (DESIGN C22 "optional sign"; `-Inf` and `complex()` strings are
     signed in the documentation itself).
 D2 "Commas can be used like underscores to separate digits without changing
     the result. [...] several may be in a row, and they may be after all
     digits, after `.`, `e`, or `j`, or even inside a radix prefix.
     Separators before the first digit are still forbidden because e.g. `_1`
     is a legal Python variable name, so it's a symbol in Hy rather than an
     integer."
 D3 "Integers can begin with leading zeroes, even without a radix prefix."
 D4 "`NaN`, `Inf`, and `-Inf` are understood as literals.  Each produces a
     Float.  These are case-sensitive."
 D5 "Hy allows complex literals as understood by the constructor for
     complex, such as 5+4j."
 D6 (property / Identifiers) anything else is a symbol or a dotted identifier;
    "`a..b` and `a.` are neither dotted identifiers nor symbols; they're
    syntax errors"; the parts of a dotted identifier are symbols.

Left open by the documentation, hence "unspec":
  * `+Inf`, `+NaN`, `-NaN` (only NaN, Inf, -Inf are listed; complex() accepts them)
  * `Infinity` and friends (float()/complex() accept it, the docs list only `Inf`)
  * inf/nan written in the wrong case inside a complex literal (`1+infj`)
  * bare `j` / `J` (complex("j") == 1j, but it is plainly a variable name)
  * a separator after a sign that follows the first digit (`1e+_5`, `1+_5j`:
    not among the listed places, not before the first digit either)
  * separators in a text without any ASCII digit (`Inf_`, `N_aN`)
  * a dotted identifier one of whose parts is itself "unspec"
"""
import ast
import functools
import re
import warnings
from collections import namedtuple

Ref = namedtuple("Ref", "cls typ value rule")

SEPS = "_,"
DIGITS = "0123456789"
_INFNAN = re.compile(r"infinity|inf|nan", re.I)
_LEADZERO = re.compile(r"0[0-9]+\Z")


def _num(v, rule):
    return Ref("num", type(v), v, rule)


@functools.lru_cache(maxsize=200000)
def py_literal(s):
    """Value of `s` if `s` is exactly one Python numeric literal token
    (decided by CPython's parser), else None."""
    if not s or s[0] not in "0123456789.":
        return None         # every Python numeric literal starts with a digit or '.'
    try:
        with warnings.catch_warnings():
            warnings.simplefilter("ignore")
            tree = ast.parse(s, mode="eval")
    except (SyntaxError, ValueError, MemoryError, RecursionError):
        return None
    body = tree.body
    if (isinstance(body, ast.Constant) and type(body.value) in (int, float, complex)
            and body.col_offset == 0 and body.end_col_offset == len(s)):
        return body.value
    return None


def _py_complex(t):
    try:
        return complex(t)
    except ValueError:
        return None


def _classify_nosep(t):
    """`t` contains no separator."""
    if not t:
        return Ref("notnum", None, None, "empty")
    sign = t[0] if t[0] in "+-" else ""
    body = t[1:] if sign else t

    # D1: Python literal, optionally signed
    v = py_literal(body)
    if v is not None:
        if not sign:
            return _num(v, "python-literal")
        if type(v) is complex:
            # a signed imaginary literal is a complex() string (D5): the
            # constructor's value (real part +0.0), not Python's unary minus
            c = _py_complex(t)
            return _num(c if c is not None else (-v if sign == "-" else +v), "signed-python-imaginary")
        return _num(-v if sign == "-" else +v, "signed-python-literal")

    # D3: decimal integer with leading zeros
    if _LEADZERO.match(body):
        v = int(body, 10)
        return _num(-v if sign == "-" else v, "leading-zeros" if not sign else "signed-leading-zeros")

    # D4: NaN, Inf, -Inf
    if t in ("NaN", "Inf", "-Inf"):
        return _num(float(t), "inf-nan")
    if t in ("+Inf", "+NaN", "-NaN"):
        return Ref("unspec", None, None, "signed-inf-nan-not-listed")
    if body.lower() in ("inf", "nan", "infinity"):
        if body == "Infinity":
            return Ref("unspec", None, None, "Infinity")
        return Ref("notnum", None, None, "inf-nan-wrong-case")

    if t in ("j", "J"):
        return Ref("unspec", None, None, "bare-j")

    # D5: complex() strings
    c = _py_complex(t)
    if c is not None:
        if "j" not in t.lower():
            # float-like text that is neither a Python literal nor listed above
            return Ref("unspec", None, None, "complex()-accepts-non-imaginary")
        words = _INFNAN.findall(t)
        if words:
            if any(w not in ("Inf", "NaN") for w in words):
                return Ref("unspec", None, None, "complex-with-inf-nan-in-other-case-or-Infinity")
            return _num(c, "complex()-string-with-Inf-NaN")
        return _num(c, "complex()-string")
    return Ref("notnum", None, None, "not-a-literal")


@functools.lru_cache(maxsize=400000)
def classify(s):
    if not any(c in SEPS for c in s):
        return _classify_nosep(s)

    # D1 first: underscores where Python itself allows them
    sign = s[0] if s and s[0] in "+-" else ""
    body = s[1:] if sign else s
    v = py_literal(body)
    if v is not None:
        if not sign:
            return _num(v, "python-literal-with-underscores")
        r = _classify_nosep((sign + body).replace("_", ""))
        if r.cls == "num":
            return Ref("num", r.typ, r.value, "signed-python-literal-with-underscores")

    # D2: separators do not change the result, so the number (if any) is that
    # of the text without them
    t = s.replace("_", "").replace(",", "")
    r = _classify_nosep(t)
    if r.cls == "notnum":
        return Ref("notnum", None, None, "not-a-literal-even-without-separators")
    first_digit = next((i for i, c in enumerate(s) if c in DIGITS), None)
    is_hex = t.lstrip("+-")[:2].lower() == "0x"
    forbidden = conflict = open_place = False
    if first_digit is None:
        open_place = True
    for k, c in enumerate(s):
        if c not in SEPS:
            continue
        j = k - 1
        while j >= 0 and s[j] in SEPS:
            j -= 1
        p = s[j] if j >= 0 else ""
        if first_digit is None:
            continue
        if k < first_digit:
            # "Separators before the first digit are still forbidden" is stated without
            # exception (the "still" makes it the exception to the permissive list that
            # includes "after `.`"), and its rationale applies: `._5` is a legal dotted
            # identifier (the attribute `_5`), as `_1` is a legal variable name
            forbidden = True
        else:
            if p in DIGITS or p in ".eEjJxXoObB" or (is_hex and p in "abcdefABCDEF"):
                pass
            else:
                open_place = True        # after a sign, or inside Inf/NaN
    if forbidden:
        return Ref("notnum", None, None, "separator-before-first-digit")
    if r.cls == "unspec":
        return r
    if conflict:
        return Ref("unspec", None, None, "separator-after-dot-before-first-digit")
    if open_place:
        return Ref("unspec", None, None,
                   "separators-without-digits" if first_digit is None else "separator-after-sign-or-in-inf-nan")
    return Ref("num", r.typ, r.value, "separators:" + r.rule)


def expected_nonnumber(s):
    """For a text that is not a number: what it must read as (D6).

    -> ("symbol", s) | ("dotted", head, [parts]) | ("syntax-error", why) | ("unspec", why)
    """
    if "." not in s:
        return ("symbol", s)
    if not s.strip("."):
        return ("symbol", s)
    rest = s.lstrip(".")
    head = s[:len(s) - len(rest)]
    parts = rest.split(".")
    if any(p == "" for p in parts):
        return ("syntax-error", "empty part (doubled or trailing dot)")
    unspec = False
    for p in parts:
        r = classify(p)
        if r.cls == "num":
            return ("syntax-error", "part is a number")
        if r.cls == "unspec":
            unspec = True
    if unspec:
        return ("unspec", "dotted identifier with an unspecified part")
    return ("dotted", head, parts)


def same_number(typ, value, got):
    """Type-strict, signed-zero and NaN aware equality of a reference value
    with a Python number `got` (already demoted from the Hy model)."""
    import math
    import struct
    if type(got) is not typ:
        return False

    def feq(a, b):
        if math.isnan(a) or math.isnan(b):
            return math.isnan(a) and math.isnan(b)
        return struct.pack(">d", a) == struct.pack(">d", b)
    if typ is int:
        return value == got
    if typ is float:
        return feq(value, got)
    return feq(value.real, got.real) and feq(value.imag, got.imag)
