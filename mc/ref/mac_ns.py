"""Reference model for C35: macro namespaces as a chain of dictionaries.

A direct transcription of the documentation (docs/macros.rst "Macro namespaces
and operations on macros", docs/api.rst on `require`, `pragma`, `hy.eval`) and
of the property statement.  It knows nothing about how Hy implements any of it.

  lookup order     [hy.eval's `macros` argument, local scopes innermost ->
                    outermost, the module's macros, core macros]
  local scopes     function, class and comprehension forms other than `for`;
                    a local scope and everything defined in it disappears when
                    the form ends
  defmacro/require write into the innermost enclosing local scope, or into the
                    module when there is none
  require shapes   (require M)            every macro X of M as "M.X"
                   (require M :as P)      every macro X of M as "P.X"
                   (require M [X])        X                (:macros optional)
                   (require M [X :as Y])  Y := M's X
                   (require M *)          the names in M's _hy_export_macros,
                                          default: every macro whose name does
                                          not start with an underscore
  warning          defmacro / require of a name that is a core macro warns iff
                    the innermost (pragma :warn-on-core-shadow v) in effect is
                    true (default true); the pragma is scoped like a local macro
  hy.eval          sees `macros`, the module's macros and core macros, never
                    the caller's local macros

UNSPECIFIED by the documentation (DESIGN section 4, C35): whether the prefixed
shapes also bring in macros that `*` would not collect (underscore names,
names missing from _hy_export_macros).  Such entries are recorded as
"maybe": a lookup that meets one accepts both the entry and whatever lies
below it in the chain.

A table maps a name to a frozenset of alternatives; the alternative ABSENT
means "possibly not defined here".  A token is whatever the macro expands to
(each definition expands to a distinct constant).
"""

ABSENT = "<absent>"
NOMACRO = "fn"          # what a call of a name evaluates to when no macro has that name
CORE = {"when": -1}     # the only core macro among the probed names; (when 1 -1) => -1


class Scope:
    def __init__(self, transparent=False):
        self.macros = {}
        self.pragma = None
        self.transparent = transparent     # a `for` form: not a scope at all

    def canon(self):
        return (self.transparent, tuple(sorted((k, tuple(sorted(map(repr, v)))) for k, v in self.macros.items())), self.pragma)


class Namespaces:
    def __init__(self, helpers):
        """helpers: {module name: {"macros": {name: token}, "exports": [names] | None}}"""
        self.helpers = helpers
        self.module = {}
        self.module_pragma = None
        self.scopes = []
        self.warnings = []          # names warned about, in order
        self.module_assign_log = [] # names assigned at module level, in order (for the run-time view)

    # ---- scopes -----------------------------------------------------------
    def enter(self, transparent=False):
        self.scopes.append(Scope(transparent))

    def leave(self):
        self.scopes.pop()

    def depth(self):
        return len(self.scopes)

    def _real_scopes(self):
        return [s for s in self.scopes if not s.transparent]

    def _table(self):
        real = self._real_scopes()
        return real[-1].macros if real else self.module

    def warn_enabled(self):
        for s in reversed(self._real_scopes()):
            if s.pragma is not None:
                return s.pragma
        return True if self.module_pragma is None else self.module_pragma

    def pragma(self, value):
        real = self._real_scopes()
        if real:
            real[-1].pragma = bool(value)
        else:
            self.module_pragma = bool(value)

    # ---- definitions ------------------------------------------------------
    def _assign(self, name, token, maybe=False):
        table = self._table()
        if maybe:
            table[name] = frozenset({token}) | table.get(name, frozenset({ABSENT}))
        else:
            table[name] = frozenset({token})
            if name in CORE and self.warn_enabled():
                self.warnings.append(name)
        if table is self.module:
            self.module_assign_log.append(name)

    def defmacro(self, name, token):
        self._assign(name, token)

    def exported(self, helper):
        h = self.helpers[helper]
        if h.get("exports") is not None:
            return [n for n in h["macros"] if n in h["exports"]]
        return [n for n in h["macros"] if not n.startswith("_")]

    def require(self, helper, shape, payload=None):
        """shape: 'bare' | 'as' (payload = prefix) | 'star' | 'names' (payload = [[X, Y], ...])"""
        h = self.helpers[helper]
        if shape in ("bare", "as"):
            prefix = helper if shape == "bare" else payload
            exp = set(self.exported(helper))
            for name, token in h["macros"].items():
                self._assign(prefix + "." + name, token, maybe=name not in exp)
        elif shape == "star":
            for name in self.exported(helper):
                self._assign(name, h["macros"][name])
        elif shape == "names":
            for name, alias in payload:
                self._assign(alias, h["macros"][name])
        else:
            raise ValueError(shape)

    # ---- lookup -----------------------------------------------------------
    def chain(self, extras=None, with_locals=True, module=None, inner=()):
        """Tables from highest to lowest precedence, each tagged with its layer."""
        out = []
        if extras is not None:
            out.append(("extra", extras))
        for t in reversed(list(inner)):
            out.append(("local", t))
        if with_locals:
            for s in reversed(self._real_scopes()):
                out.append(("local", s.macros))
        out.append(("module", self.module if module is None else module))
        return out

    @staticmethod
    def resolve(name, chain):
        """-> (set of acceptable expansion tokens, layer of the first definite hit, number of layers defining the name)"""
        acc = set()
        first = None
        layers = 0
        for layer, table in chain:
            alts = table.get(name)
            if alts is None:
                continue
            layers += 1
            acc.update(a for a in alts if a != ABSENT)
            if ABSENT not in alts:
                return acc, first or layer, layers + (1 if name in CORE else 0)
            first = first or ("maybe-" + layer)
        if name in CORE:
            acc.add(CORE[name])
            return acc, first or "core", layers + 1
        acc.add(NOMACRO)
        return acc, first or "none", layers

    def snapshot_module(self):
        return dict(self.module)

    def canon(self):
        """Canonical form of the namespace state: integer tokens (one per
        definition) are replaced by their rank, so two states that differ only
        in which positions of the history made the definitions coincide."""
        ints = sorted({a for t in [self.module] + [s.macros for s in self.scopes] for v in t.values() for a in v if isinstance(a, int)})
        rank = {a: i for i, a in enumerate(ints)}

        def tab(t):
            return tuple(sorted((k, tuple(sorted(repr(rank.get(a, a)) if isinstance(a, int) else repr(a) for a in v))) for k, v in t.items()))
        return (tab(self.module), self.module_pragma,
                tuple((s.transparent, tab(s.macros), s.pragma) for s in self.scopes))
