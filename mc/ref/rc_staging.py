"""rc_staging — terms and reference staging model for C16 (docs/api.rst:
do-mac, eval-and-compile, eval-when-compile; docs/semantics.rst "When
bytecode is regenerated").  Knows nothing about the compiler.

Terms (JSON-able lists; sizes count one per node):

  ["L"]            (rc_log i)              logs site i, value 10*i
  ["DO", body]     (do ...)
  ["FN", body, k]  (do (defn f_i [] ...) (f_i) x k)     k in {0, 2}
  ["EWC", body]    (eval-when-compile ...)   body staging-free
  ["EAC", body]    (eval-and-compile ...)    body staging-free
  ["DMQ"]          (do-mac (rc_log i) '(rc_log j))   compile-time log i, leaves code (rc_log j)
  ["DMV"]          (do-mac (rc_log i))               compile-time log i, leaves the constant 10*i
  ["V", T]         (rc_val j T)            logs (j, value of T) at the stage it runs in
Extra leaves, used only by extra_programs() (each put in every context of depth <= 2):
  ["DMF", k]       (do-mac (rc_log i) FALSY[k])      compile-time log i, leaves a false constant (0, "", [], False, None)
  ["EWC", [DM*]] / ["EWC", [["EWC", ..]]]   one do-mac / eval-when-compile as the whole body of an
                   eval-when-compile: the outer body runs once, at compile time, so the inner form's
                   compile-time part and the code it leaves both run once, at compile time
  ["W2", T]        (with [_ (rc_cm) _ (do (setv k 2) T (rc_cm))] (rc_log j)): a staging form T inside the statement-producing
                   expression of a NON-FIRST context manager (rc_cm = contextlib.nullcontext)
  ["LETF"]         (let [v (rc_log i)] (defn f [] (eval-when-compile (setv v (rc_log j))) (rc_val k v)) (f))
                   the compile-time assignment contributes nothing to the function: it reads the let variable

A program is a list of terms rendered as consecutive top-level forms.  A
compile-time form directly inside an eval-and-compile or do-mac body is
outside the space (the documentation does not define how often it runs).

Reference (the documentation's sentences):
  * compiling the module evaluates, in textual order and once each, the body
    of every eval-when-compile / eval-and-compile / do-mac form (wherever it
    occurs — top level, inside `do`, inside a function body);
  * running the module: eval-when-compile contributes nothing and has value
    None; eval-and-compile runs its body again like `do` and returns the last
    value; do-mac runs the code its body returned (a non-model value is that
    constant);
  * a function body's run-time part runs once per call; its compile-time part
    ran once, when the defn was compiled;
  * loading from bytecode performs only the run-time part.
"""
import itertools

CALLS = (0, 2)
STAGING = ("EWC", "EAC", "DMQ", "DMV", "DMF", "LETF", "W2")
FALSY = [("0", 0), ('""', ""), ("[]", []), ("False", False), ("None", None)]


def size(t):
    tag = t[0]
    if tag in ("L", "DMQ", "DMV", "DMF", "LETF"):
        return 1
    if tag in ("V", "W2"):
        return 1 + size(t[1])
    return 1 + sum(size(b) for b in t[1])


def _seqs(total, staged_ok, memo):
    """All lists of terms with total size == total."""
    key = ("seq", total, staged_ok)
    if key in memo:
        return memo[key]
    out = []
    if total == 0:
        out.append([])
    for first in range(1, total + 1):
        for t in _terms(first, staged_ok, memo):
            for rest in _seqs(total - first, staged_ok, memo):
                out.append([t] + rest)
    memo[key] = out
    return out


def _terms(n, staged_ok, memo):
    key = ("term", n, staged_ok)
    if key in memo:
        return memo[key]
    out = []
    if n == 1:
        out.append(["L"])
        if staged_ok:
            out.append(["DMQ"])
            out.append(["DMV"])
    if n >= 1:
        for body in _seqs(n - 1, staged_ok, memo):
            out.append(["DO", body])
            for k in CALLS:
                out.append(["FN", body, k])
        if staged_ok:
            for body in _seqs(n - 1, False, memo):
                out.append(["EWC", body])
                out.append(["EAC", body])
    if n >= 2:
        for t in _terms(n - 1, staged_ok, memo):
            out.append(["V", t])
    memo[key] = out
    return out


def has_staging(t):
    if t[0] in STAGING:
        return True
    if t[0] == "V":
        return has_staging(t[1])
    if t[0] in ("DO", "FN"):
        return any(has_staging(b) for b in t[1])
    return False


def programs(max_size):
    """Every program (non-empty list of top-level terms) of total size <=
    max_size that contains at least one staging form, simplest first."""
    memo = {}
    out = []
    for n in range(1, max_size + 1):
        for p in _seqs(n, True, memo):
            if any(has_staging(t) for t in p):
                out.append(p)
    return out + extra_programs()


EXTRA_LEAVES = [["DMF", k] for k in range(len(FALSY))] + [
    ["EWC", [["DMQ"]]], ["EWC", [["DMV"]]], ["EWC", [["EWC", [["L"]]]]], ["EWC", [["DMF", 0]]], ["LETF"],
    ["W2", ["EWC", [["L"]]]], ["W2", ["EAC", [["L"]]]], ["W2", ["DMQ"]]]


def extra_programs():
    """Each extra leaf alone, and in every context of depth <= 2 over {V, DO, FN x0, FN x2, after an L}."""
    def ctxs(t):
        return [["V", t], ["DO", [t]], ["DO", [["L"], t]], ["FN", [t], 0], ["FN", [t], 2]]
    out = []
    for leaf in EXTRA_LEAVES:
        level1 = ctxs(leaf)
        out.append([leaf])
        out.extend([c] for c in level1)
        out.extend([c2] for c in level1 for c2 in ctxs(c))
        out.append([["L"], leaf, ["L"]])
    return out


# ------------------------------------------------------------------ rendering + reference

class Build:
    """Renders a program and computes the reference event lists in one pass
    (sites are numbered in textual order)."""

    def __init__(self, program):
        self.n = 0
        self.forms = []
        self.ct = []          # compile-time events, textual order
        self.rt = []          # run-time events of one execution of the module
        self.constructs = set()
        for t in program:
            text, ct, (rt, _v) = self.term(t, in_fn=False)
            self.forms.append(text)
            self.ct += ct
            self.rt += rt
        self.text = "\n".join(self.forms) + "\n"

    def site(self):
        self.n += 1
        return self.n

    def body(self, body, in_fn):
        texts, ct, rt, v = [], [], [], None
        for b in body:
            t, c, (r, v) = self.term(b, in_fn)
            texts.append(t)
            ct += c
            rt += r
        if not body:
            v = None
        return " ".join(texts), ct, rt, v

    def term(self, t, in_fn):
        """-> (text, compile-time events, (run-time events of ONE evaluation, value))"""
        tag = t[0]
        self.constructs.add(tag + ("@fn" if in_fn and tag in STAGING else ""))
        if tag == "L":
            i = self.site()
            return "(rc_log %d)" % i, [], ([("log", i)], 10 * i)
        if tag == "DO":
            text, ct, rt, v = self.body(t[1], in_fn)
            return "(do %s)" % text if text else "(do)", ct, (rt, v)
        if tag == "FN":
            i = self.site()
            text, ct, rt, v = self.body(t[1], True)
            k = t[2]
            calls = " ".join("(f%d)" % i for _ in range(k))
            src = "(do (defn f%d [] %s)%s)" % (i, text, (" " + calls) if calls else "")
            return src, ct, (rt * k, v if k else None)
        if tag in ("EWC", "EAC"):
            text, ct_inner, rt, v = self.body(t[1], in_fn)
            assert not ct_inner or (tag == "EWC" and len(t[1]) == 1)
            head = "eval-when-compile" if tag == "EWC" else "eval-and-compile"
            src = "(%s %s)" % (head, text) if text else "(%s)" % head
            if tag == "EWC":
                # a single nested compile-time form: its compile-time part necessarily precedes the code it leaves
                return src, ct_inner + list(rt), ([], None)
            return src, list(rt), (list(rt), v)
        if tag == "DMF":
            i = self.site()
            lit, val = FALSY[t[1]]
            return "(do-mac (rc_log %d) %s)" % (i, lit), [("log", i)], ([], val)
        if tag == "W2":
            inner, ct, (rt, _v) = self.term(t[1], in_fn)
            j = self.site()
            src = "(with [_ (rc_cm) _ (do (setv k 2) %s (rc_cm))] (rc_log %d))" % (inner, j)
            return src, ct, (rt + [("log", j)], 10 * j)
        if tag == "LETF":
            i, j, k = self.site(), self.site(), self.site()
            src = ("(let [v (rc_log %d)] (defn f%d [] (eval-when-compile (setv v (rc_log %d))) (rc_val %d v)) (f%d))" % (i, i, j, k, i))
            return src, [("log", j)], ([("log", i), ("val", k, repr(10 * i))], 10 * i)
        if tag == "DMQ":
            i, j = self.site(), self.site()
            return "(do-mac (rc_log %d) '(rc_log %d))" % (i, j), [("log", i)], ([("log", j)], 10 * j)
        if tag == "DMV":
            i = self.site()
            return "(do-mac (rc_log %d))" % i, [("log", i)], ([], 10 * i)
        if tag == "V":
            j = self.site()
            # textual order: rc_val's site number precedes its argument's sites, its event follows them
            text, ct, (rt, v) = self.term(t[1], in_fn)
            return "(rc_val %d %s)" % (j, text), ct, (rt + [("val", j, repr(v))], v)
        raise AssertionError(tag)


def expected(build, compiled):
    """Events of one load: [stage, event...] lists."""
    ev = []
    if compiled:
        ev += [["C"] + list(e) for e in build.ct]
    ev += [["R"] + list(e) for e in build.rt]
    return ev


HISTORY_OPS = ["L", "T"]      # L: drop from sys.modules and import; T: touch the source, then the same


def histories(max_len):
    out = []
    for n in range(1, max_len + 1):
        out.extend("".join(h) for h in itertools.product(HISTORY_OPS, repeat=n))
    return out
