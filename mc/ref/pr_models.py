"""Model trees for C25 / C30 / C31 (author prefix pr_).

* a JSON-able *spec* of a hy model tree, `build` (spec -> model through the
  constructors), `spec_of` (model -> spec), `key` (canonical string);
* `render` -- a documentation-faithful printer spec -> Hy source text that
  knows nothing about hy.repr (it is used to obtain the same model *from the
  reader*; a spec whose rendering does not read back as the spec is not
  "reader-producible" and is left out of C25's space);
* `model_diff` -- node-by-node, type-strict, NaN-aware, signed-zero-aware
  comparison including brackets / conversion / expression / is_tstring;
* exhaustive generators: token strings (texts) and structured spec families;
* a guard for Hy's module-level printer state.

`hy` is imported lazily (the runner's parent process must not import it).
"""
import itertools
import json
import math

SEQ = ("Expression", "List", "Tuple", "Set", "Dict")


def _M():
    import hy  # noqa: F401
    import hy.models as M
    return M


# ------------------------------------------------------------------ specs

def build(spec):
    """spec -> model, through the model constructors only."""
    M = _M()
    t = spec[0]
    if t == "Symbol":
        return M.Symbol(spec[1], from_parser=True)
    if t == "Keyword":
        return M.Keyword(spec[1], from_parser=True)
    if t == "String":
        return M.String(spec[1], brackets=spec[2])
    if t == "Bytes":
        return M.Bytes(spec[1].encode("latin-1"))
    if t == "Integer":
        return M.Integer(spec[1])
    if t == "Float":
        return M.Float(spec[1])
    if t == "Complex":          # text, exactly what the reader passes
        return M.Complex(spec[1])
    if t == "ComplexV":         # exact parts (reprs of two floats)
        return M.Complex(float(spec[1]), float(spec[2]))
    if t in SEQ:
        return getattr(M, t)([build(c) for c in spec[1]])
    if t == "FString":
        return M.FString([build(c) for c in spec[3]], brackets=spec[1], is_tstring=spec[2])
    if t == "FComponent":
        return M.FComponent([build(c) for c in spec[4]], conversion=spec[1],
                            expression=spec[2], is_tstring=spec[3])
    raise ValueError("bad spec " + repr(spec))


def _fl(x):
    x = float(x)
    if math.isnan(x):
        return "nan"
    return repr(x)


def _fl_hy(x):
    x = float(x)
    if math.isnan(x):
        return "NaN"
    if math.isinf(x):
        return "Inf" if x > 0 else "-Inf"
    return repr(x)


def spec_of(m):
    """model -> spec (non-models are described as ['PY', type name, repr])."""
    M = _M()
    t = type(m)
    if t is M.Symbol:
        return ["Symbol", str(m)]
    if t is M.Keyword:
        return ["Keyword", m.name]
    if t is M.String:
        return ["String", str(m), getattr(m, "brackets", "<missing>")]
    if t is M.Bytes:
        return ["Bytes", bytes(m).decode("latin-1")]
    if t is M.Integer:
        return ["Integer", str(int(m))]
    if t is M.Float:
        return ["Float", _fl_hy(m)]
    if t is M.Complex:
        return ["ComplexV", _fl(m.real), _fl(m.imag)]
    if t in (M.Expression, M.List, M.Tuple, M.Set, M.Dict):
        return [t.__name__, [spec_of(c) for c in m]]
    if t is M.FString:
        return ["FString", getattr(m, "brackets", "<missing>"), getattr(m, "is_tstring", "<missing>"),
                [spec_of(c) for c in m]]
    if t is M.FComponent:
        return ["FComponent", getattr(m, "conversion", "<missing>"), getattr(m, "expression", "<missing>"),
                getattr(m, "is_tstring", "<missing>"), [spec_of(c) for c in m]]
    return ["PY", t.__module__ + "." + t.__qualname__, repr(m)[:80]]


def key(spec):
    return json.dumps(spec, ensure_ascii=True, separators=(",", ":"))


def children(spec):
    t = spec[0]
    if t in SEQ:
        return spec[1]
    if t == "FString":
        return spec[3]
    if t == "FComponent":
        return spec[4]
    return []


def size(spec):
    return 1 + sum(size(c) for c in children(spec))


def walk(spec):
    yield spec
    for c in children(spec):
        yield from walk(c)


# ------------------------------------------------------------------ comparison

def _same_float(a, b):
    """'' if identical, 'zero-sign' if == but the sign of a zero differs, else 'value'."""
    a = float(a)
    b = float(b)
    if math.isnan(a) or math.isnan(b):
        return "" if (math.isnan(a) and math.isnan(b)) else "value"
    if a != b:
        return "value"
    if math.copysign(1.0, a) != math.copysign(1.0, b):
        return "zero-sign"
    return ""


_MISSING = "<missing>"


def _attr(path, a, b, name):
    va = getattr(a, name, _MISSING)
    vb = getattr(b, name, _MISSING)
    if type(va) is not type(vb) or va != vb:
        return dict(path=list(path), field=name, node=type(a).__name__, a=repr(va), b=repr(vb))
    return None


def model_diff(a, b, expression=True, path=()):
    """First difference between two model trees (pre-order), or None.

    Type-strict at every node; every node must be a hy model; floats and the
    two parts of a complex are compared NaN-aware and signed-zero-aware;
    brackets / conversion / is_tstring (and expression when asked) must be
    identical in value and type."""
    M = _M()
    if type(a) is not type(b):
        return dict(path=list(path), field="type", node=type(a).__name__,
                    a=type(a).__name__, b=type(b).__name__)
    node = type(a).__name__
    if not isinstance(a, M.Object):
        if a is b:
            return None
        try:
            same = bool(a == b)
        except Exception:
            same = False
        return None if same else dict(path=list(path), field="value", node="PY:" + node, a=repr(a)[:80], b=repr(b)[:80])

    def D(field, va, vb):
        return dict(path=list(path), field=field, node=node, a=va, b=vb)

    if isinstance(a, M.Sequence):
        if isinstance(a, M.FString):
            for name in ("brackets", "is_tstring"):
                d = _attr(path, a, b, name)
                if d:
                    return d
        if isinstance(a, M.FComponent):
            for name in ("conversion", "is_tstring") + (("expression",) if expression else ()):
                d = _attr(path, a, b, name)
                if d:
                    return d
        if len(a) != len(b):
            return D("length", len(a), len(b))
        for i, (x, y) in enumerate(zip(a, b)):
            d = model_diff(x, y, expression, path + (i,))
            if d:
                return d
        return None
    if isinstance(a, M.String):
        if str(a) != str(b):
            return D("value", str(a), str(b))
        return _attr(path, a, b, "brackets")
    if isinstance(a, M.Symbol):
        return None if str(a) == str(b) else D("value", str(a), str(b))
    if isinstance(a, M.Keyword):
        return None if (type(a.name) is type(b.name) and a.name == b.name) else D("value", a.name, b.name)
    if isinstance(a, M.Bytes):
        return None if bytes(a) == bytes(b) else D("value", repr(bytes(a)), repr(bytes(b)))
    if isinstance(a, M.Integer):
        return None if int(a) == int(b) else D("value", str(int(a)), str(int(b)))
    if isinstance(a, M.Float):
        f = _same_float(a, b)
        return D(f, _fl(a), _fl(b)) if f else None
    if isinstance(a, M.Complex):
        for part in ("real", "imag"):
            f = _same_float(getattr(a, part), getattr(b, part))
            if f:
                return D(f, "%s+%sj" % (_fl(a.real), _fl(a.imag)), "%s+%sj" % (_fl(b.real), _fl(b.imag)))
        return None
    return D("unknown-model-class", node, node)


def at_path(m, path):
    for i in path:
        m = m[i]
    return m


def features(m):
    """A short, stable description of ONE model node -- used as the `culprit`
    field of a disagreement so that known-finding matchers can be narrow."""
    M = _M()
    t = type(m).__name__
    f = []
    if isinstance(m, M.String):
        f.append("plain" if m.brackets is None else "bracket")
        if m.brackets is not None and str(m)[:1] == "\n":
            f.append("leading-newline")
    elif isinstance(m, M.FString):
        f.append("plain" if m.brackets is None else "bracket")
        if m.is_tstring:
            f.append("tstring")
        if m.brackets is not None and len(m) and isinstance(m[0], M.String) and str(m[0])[:1] == "\n":
            f.append("leading-newline")
    elif isinstance(m, M.FComponent):
        f.append("spec-parts=%d" % max(0, len(m) - 1))
        if m.conversion is not None:
            f.append("conversion")
        if m.is_tstring:
            f.append("tstring")
    elif isinstance(m, M.Complex):
        zs = []
        for nm, v in (("real", m.real), ("imag", m.imag)):
            if v == 0 and math.copysign(1.0, v) < 0:
                zs.append("neg-zero-" + nm)
        f.extend(zs or ["no-neg-zero"])
    elif isinstance(m, M.Float):
        if float(m) == 0 and math.copysign(1.0, float(m)) < 0:
            f.append("neg-zero")
        elif math.isnan(float(m)):
            f.append("nan")
    elif isinstance(m, M.Expression):
        if dotted_sugar(m):
            f.append("dotted-sugar")
            parts = list(m[2:] if (str(m[1]) == "None" and not str(m[0]).strip(".")) else m[1:])
            if any("." in str(p) for p in parts):
                f.append("part-contains-dot")
        elif len(m) == 2 and isinstance(m[0], M.Symbol) and str(m[0]) in SUGAR:
            f.append("prefix-sugar:" + str(m[0]))
        else:
            f.append("len=%d" % len(m))
    elif isinstance(m, M.Sequence):
        f.append("len=%d" % len(m))
    return t + "[" + ",".join(f) + "]"


SUGAR = ("quote", "quasiquote", "unquote", "unquote-splice", "unpack-iterable", "unpack-mapping")


def dotted_sugar(m):
    """Is this an Expression that the documentation's dotted-identifier sugar
    (`a.b.c`, `.a.b`) is the abbreviation of?  (>=3 symbols; head `.` or an
    all-dots head followed by None.)"""
    M = _M()
    if not (isinstance(m, M.Expression) and len(m) >= 3 and all(type(e) is M.Symbol for e in m)):
        return False
    return str(m[0]) == "." or (str(m[1]) == "None" and not str(m[0]).strip("."))


# ------------------------------------------------------------------ renderer

def _esc(s, fstr=False, raw=False):
    out = []
    for ch in s:
        if not raw:
            if ch == "\\":
                out.append("\\\\")
                continue
            if ch == '"':
                out.append('\\"')
                continue
            o = ord(ch)
            if ch == "\r" or (o < 0x20 and ch not in "\n\t") or o == 0x7f:
                out.append("\\x%02x" % o)
                continue
            if 0xD800 <= o <= 0xDFFF:
                out.append("\\u%04x" % o)
                continue
        if fstr and ch in "{}":
            out.append(ch * 2)
            continue
        out.append(ch)
    return "".join(out)


def _esc_bytes(b):
    out = []
    for o in b:
        ch = chr(o)
        if ch == "\\":
            out.append("\\\\")
        elif ch == '"':
            out.append('\\"')
        elif 0x20 <= o < 0x7f:
            out.append(ch)
        else:
            out.append("\\x%02x" % o)
    return "".join(out)


class NotRenderable(Exception):
    pass


def render(spec):
    """Documentation-faithful Hy source text of a model spec (syntax.rst):
    no abbreviations are used except the ones that are the only notation
    (strings, f-strings, bracket strings, numbers)."""
    t = spec[0]
    if t == "Symbol":
        return spec[1]
    if t == "Keyword":
        return ":" + spec[1]
    if t == "String":
        s, d = spec[1], spec[2]
        if d is None:
            return '"' + _esc(s) + '"'
        if "\r" in s:
            raise NotRenderable("CR in bracket string")
        return "#[" + d + "[" + ("\n" if s[:1] == "\n" else "") + s + "]" + d + "]"
    if t == "Bytes":
        return 'b"' + _esc_bytes(spec[1].encode("latin-1")) + '"'
    if t in ("Integer", "Float", "Complex"):
        return spec[1]
    if t == "ComplexV":
        re_, im = float(spec[1]), float(spec[2])
        ims = _fl_hy(im)
        if not (ims.startswith("-") or ims.startswith("+")):
            ims = "+" + ims
        return _fl_hy(re_) + ims + "j"
    if t in SEQ:
        o, c = {"Expression": "()", "List": "[]", "Tuple": ("#(", ")"), "Set": ("#{", "}"), "Dict": "{}"}[t]
        return o + " ".join(render(x) for x in spec[1]) + c
    if t == "FString":
        d, is_t, parts = spec[1], spec[2], spec[3]
        if d is None:
            body = "".join(_esc(p[1], fstr=True) if p[0] == "String" else _render_fcomp(p, raw=False) for p in parts)
            return ("t" if is_t else "f") + '"' + body + '"'
        body = "".join(_esc(p[1], fstr=True, raw=True) if p[0] == "String" else _render_fcomp(p, raw=True) for p in parts)
        if "\r" in body:
            raise NotRenderable("CR in bracket string")
        lead = "\n" if (parts and parts[0][0] == "String" and parts[0][1][:1] == "\n") else ""
        return "#[" + d + "[" + lead + body + "]" + d + "]"
    if t == "FComponent":
        raise NotRenderable("FComponent outside an FString has no syntax")
    raise NotRenderable(repr(spec))


def _render_fcomp(spec, raw):
    conv, parts = spec[1], spec[4]
    if not parts:
        raise NotRenderable("empty FComponent")
    first = render(parts[0])
    # "{{" is the escape for a literal brace, so a form that itself starts
    # with "{" (a dict literal) must be separated from the field opener.
    out = "{" + (" " if first.startswith("{") else "") + first
    if conv is not None:
        out += " !" + conv
    if len(parts) > 1:
        out += " :" + "".join(_esc(p[1], fstr=True, raw=raw) if p[0] == "String" else _render_fcomp(p, raw)
                              for p in parts[1:])
    return out + "}"


def needs_bracketed_templates(spec):
    return any(s[0] == "FString" and s[1] is not None and s[2] for s in walk(spec))


def read_all(text, bracketed_templates=False):
    import hy
    from hy.reader.hy_reader import HyReader
    rd = HyReader(bracketed_templates=True) if bracketed_templates else None
    return list(hy.read_many(text, reader=rd))


def read_spec(spec):
    """Render the spec and read it with the real reader.  Returns the model if
    the reader yields exactly one form that is node-for-node the spec
    (expression text included), else None."""
    try:
        text = render(spec)
        forms = read_all(text, needs_bracketed_templates(spec))
    except NotRenderable:
        return None, None
    except BaseException:
        return None, None
    if len(forms) != 1:
        return None, text
    if model_diff(build(spec), forms[0], expression=True) is not None:
        return None, text
    return forms[0], text


# ------------------------------------------------------------------ Hy state

def state():
    import hy  # noqa: F401
    import hy.core.hy_repr as R
    import hy.models as M
    from hy.reader.hy_reader import HyReader
    return {"hy_repr._quoting": R._quoting, "hy_repr._seen": len(R._seen),
            "models.PRETTY": M.PRETTY, "models._seen": len(M._seen),
            "HyReader._current_reader": HyReader._current_reader is not None}


CLEAN = {"hy_repr._quoting": False, "hy_repr._seen": 0, "models.PRETTY": True,
         "models._seen": 0, "HyReader._current_reader": False}


def reset_state():
    import hy  # noqa: F401
    import hy.core.hy_repr as R
    import hy.models as M
    from hy.reader.hy_reader import HyReader
    R._quoting = False
    R._seen.clear()
    M.PRETTY = True
    M._seen.clear()
    HyReader._current_reader = None


def check_state(acc, case, where):
    """Assert Hy's module-level printer/wrapper state is clean; report and
    repair otherwise (so that one leak cannot contaminate later cases)."""
    st = state()
    if st != CLEAN:
        dirty = sorted(k for k in st if st[k] != CLEAN[k])
        acc.disagree("module-state-not-clean-after-case", case,
                     f"after {where}: {st}", sig="state:" + ",".join(dirty), dirty=",".join(dirty))
        reset_state()
        return False
    return True


# ------------------------------------------------------------------ text space (token strings)

# Every atom token carries its own trailing space so that n tokens give n
# forms; the bare-space and newline tokens exist for `~ @b` and comments.
TOKENS = [
    "(", ")", "[", "]", "{", "}", "#{", "#(",
    "'", "`", "~", "~@", "#* ", "#** ", "#^ ", "#_ ",
    " ", ";c\n",
    "a ", "@b ", "@b.c ", ". ", "... ", "None ", ".a ", "a.b ", "..a.b ",
    "quote ", "unquote ", "unquote-splice ",
    ":k ", ": ",
    "1 ", "-0.0 ", "NaN ", "1e22 ", "0x1F ", "2j ", "-0j ", "1-0j ", "NaN-Infj ",
    '"s"', '"q\\"\\\\\n"', 'b"\\xff\\""', 'r"\\d"',
    "#[[\n\nab]]", "#[d[a]]\"b]d]",
    'f"a{x}"', 'f"{x !r:>{w}}"', "#[f[\n\n{x}]f]", 't"{x}"', 'f"{x :a{y =}}"', 'f"\\\\N{x}"',
    # a nested replacement field whose own format spec has a backslash: raw in a bracket f-string, an escape in a quoted one
    "#[f[{x :{y :\\n}}]f]", 'f"{x :{y :\\t}}"',
]


def forms_of_text(text):
    """Models the reader produces for a text ([] if it is not readable)."""
    try:
        return read_all(text)
    except BaseException:
        return None


# ------------------------------------------------------------------ structured spec families

def S(s, b=None):
    return ["String", s, b]


def Sym(s):
    return ["Symbol", s]


ATOMS_FULL = [
    Sym("a"), Sym("None"), Sym("True"), Sym("@b"), Sym("..."), Sym("."), Sym("unquote"), Sym("-"),
    ["Keyword", "k"], ["Keyword", ""],
    S("s"), S(""), S('q"\\\n\t{}\''), S("\r\x00\x7fé \U0001d538"), S("'"),
    S("x", ""), S("", ""), S("\nab", "d"), S("\n", ""), S("a]b\"\\n", ""), S("]", "x"), S(" a\n", "a b"),
    ["Bytes", ""], ["Bytes", "\xff\"'\\\n\x00a"], ["Bytes", "'"],
    ["Integer", "1"], ["Integer", "-1"], ["Integer", "1" + "0" * 30], ["Integer", "0x1F"], ["Integer", "1_000"],
    ["Float", "1.5"], ["Float", "-0.0"], ["Float", "NaN"], ["Float", "-Inf"], ["Float", "1e22"], ["Float", "1e-7"],
    ["Complex", "2j"], ["Complex", "-0j"], ["Complex", "1-0j"], ["Complex", "-0.0+1j"], ["Complex", "NaN+Infj"],
    ["Complex", "-Inf-NaNj"], ["Complex", "1e22+1e-7j"],
]
ATOMS_SMALL = [
    Sym("a"), Sym("None"), Sym("@b"), Sym("..."), ["Keyword", "k"],
    S("s"), S("\nab", "d"), ["Bytes", "\xff\""], ["Integer", "1"], ["Float", "-0.0"], ["Float", "NaN"],
    ["Complex", "-0j"],
]
HEADS = [Sym(h) for h in ("quote", "quasiquote", "unquote", "unquote-splice", "unpack-iterable",
                          "unpack-mapping", "annotate", ".", "..", "f")]


def fam_terms(atoms, small, depth2):
    """Sequence models: every kind x 0..2 children (3 for Dict/Expression over the
    small pool); every special head x 1..2 arguments; optionally one more level."""
    out = []
    lvl1 = []
    for k in SEQ:
        lvl1.append([k, []])
        for a in atoms:
            lvl1.append([k, [a]])
        for a, b in itertools.product(atoms, repeat=2):
            lvl1.append([k, [a, b]])
    for k in ("Dict", "Expression", "List"):
        for tr in itertools.product(small, repeat=3):
            lvl1.append([k, list(tr)])
    for h in HEADS:
        for a in atoms:
            lvl1.append(["Expression", [h, a]])
        for a, b in itertools.product(small + [Sym("b"), Sym("c.d")], repeat=2):
            lvl1.append(["Expression", [h, a, b]])
        for tr in itertools.product([Sym("a"), Sym("None"), Sym("..."), Sym("@b")], repeat=3):
            lvl1.append(["Expression", [h] + list(tr)])
    out.extend(lvl1)
    if depth2:
        inner = [[k, []] for k in SEQ] + [[k, [a]] for k in SEQ for a in small[:6]] + \
                [["Expression", [h, a]] for h in HEADS for a in small[:4]] + \
                [["Dict", [Sym("a"), Sym("b"), Sym("c")]], ["Expression", [Sym("."), Sym("a"), Sym("b")]],
                 ["Expression", [Sym("."), Sym("None"), Sym("a")]]]
        for k in SEQ:
            for i in inner:
                out.append([k, [i]])
                out.append([k, [Sym("a"), i]])
                out.append([k, [i, Sym("a")]])
            for i, j in itertools.product(inner[:40], repeat=2):
                out.append([k, [i, j]])
        for h in HEADS:
            for i in inner:
                out.append(["Expression", [h, i]])
    return out


def _fc(child0, conv, spec_parts, is_t):
    return ["FComponent", conv, render(child0), is_t, [child0] + list(spec_parts)]


def _no_adjacent_strings(parts):
    return all(not (a[0] == "String" and b[0] == "String") for a, b in zip(parts, parts[1:]))


def spec_part_seqs(raw, maxlen, nested):
    """Format-spec component sequences the reader can produce (String and
    FComponent alternating freely, never two Strings in a row, no empty String).
    Nested replacement fields are always f-string fields (is_tstring False)."""
    strs = [S(">5"), S("{"), S(" \n")] + ([] if raw else [S('"\\')])
    w = Sym("w")
    comps = [_fc(w, None, [], False), _fc(w, "r", [], False)]
    if nested:
        comps.append(_fc(w, None, [_fc(Sym("z"), None, [], False)], False))
        comps.append(_fc(w, "s", [S("<"), _fc(Sym("z"), None, [], False), S("2")], False))
    pool = strs + comps
    out = [[]]
    for n in range(1, maxlen + 1):
        for seq in itertools.product(pool, repeat=n):
            if _no_adjacent_strings(seq):
                out.append(list(seq))
    return out


FSTR_KINDS = [(None, False), (None, True), ("f", False), ("f-x", False), ("t", True)]
CHILD0 = [Sym("x"), S("s"), ["Integer", "1"], ["Expression", [Sym("f"), Sym("x")]], ["List", [Sym("x")]],
          ["Keyword", "k"], ["Dict", [Sym("a"), Sym("b")]], ["Complex", "-0j"], S("\nq", ""),
          ["FString", None, False, [["FComponent", None, "y", False, [Sym("y")]]]]]
CONVS = [None, "r", "s", "a", "z"]


def fstring_blocks():
    return [[ki, ci] for ki in range(len(FSTR_KINDS)) for ci in range(-1, len(CHILD0))]


def fam_fstrings_block(blk, spec_len, nested, multi_len):
    """Family A (block [kind, first-form index >= 0]): one replacement field with
    the full product (conversion x format-spec sequence) x literal text before /
    after.  Family B (block [kind, -1]): every sequence of <= multi_len parts
    over a reduced pool."""
    ki, ci = blk
    brackets, is_t = FSTR_KINDS[ki]
    raw = brackets is not None
    out = []
    if ci >= 0:
        seqs = spec_part_seqs(raw, spec_len, nested)
        pre_pool = [None, S("a"), S("\nb{")] if raw else [None, S("a"), S('\n"{\\')]
        c0 = CHILD0[ci]
        for conv in CONVS:
            for sp in seqs:
                fc = _fc(c0, conv, sp, is_t)
                for pre in pre_pool:
                    for post in (None, S("}z")):
                        parts = ([pre] if pre else []) + [fc] + ([post] if post else [])
                        out.append(["FString", brackets, is_t, parts])
        return out
    x = Sym("x")
    pool = [S("a"), S("\n"), S("{}")] + [_fc(x, None, [], is_t),
                                         _fc(x, "r", [S(">"), _fc(Sym("w"), None, [], False), S("5")], is_t),
                                         _fc(S("s"), None, [S("^3")], is_t)]
    out.append(["FString", brackets, is_t, []])
    for n in range(1, multi_len + 1):
        for seq in itertools.product(pool, repeat=n):
            if _no_adjacent_strings(seq):
                out.append(["FString", brackets, is_t, list(seq)])
    return out


STR_ALPHA = ["a", "\n", "]", "[", '"', "\\", "{", " ", "'"]
STR_DELIMS = [None, "", "d", "=", "a b"]


def string_blocks(n):
    """Blocks of the string family: [''] = contents shorter than 2, else one
    block per 2-character prefix."""
    return [[""]] + ([[a + b] for a in STR_ALPHA for b in STR_ALPHA] if n >= 2 else [])


def fam_strings_block(blk, n):
    """Every content string up to length n over STR_ALPHA (with the block's
    prefix) x every delimiter (None = plain "..." literal) that the String
    constructor accepts; for the empty delimiter also the bracket f-string
    #[f[...]f] with that literal text."""
    prefix = blk[0]
    if prefix == "":
        contents = [""] + list(STR_ALPHA)
    else:
        contents = [prefix + "".join(t) for ln in range(0, n - 1) for t in itertools.product(STR_ALPHA, repeat=ln)]
    out = []
    for s in contents:
        if len(s) > n:
            continue
        for d in STR_DELIMS:
            if d is not None and ("]" + d + "]") in s + "]" + d:
                continue
            out.append(S(s, d))
            if d == "":
                out.append(["FString", "f", False, [S(s)] if s else []])
    return out


# Models that only constructors can give (C30: "models assembled from
# constructors", "symbols that look special", "symbols only legal from_parser").
def fam_constructed_only(atoms):
    x = Sym("x")
    out = [Sym(""), Sym("a b"), Sym(":x"), Sym("#a"), Sym("1"), Sym("a.b"), Sym("("), Sym('"'), Sym("a\nb"),
           ["Keyword", "a.b"], ["Keyword", "a b"], ["Keyword", ":"], ["Keyword", "("],
           ["ComplexV", "0.0", "-0.0"], ["ComplexV", "-0.0", "0.0"], ["ComplexV", "-0.0", "-0.0"], ["ComplexV", "nan", "-0.0"],
           S("a\rb", ""), S("\r", "x"),
           ["FComponent", None, None, False, []], ["FComponent", "r", None, True, [x]],
           ["FString", "", False, [S("a")]], ["FString", "zz", True, []], ["FString", None, True, [S("")]]]
    for conv in (None, "r", "", "rs"):
        for expr in (None, "", "x", " x ", "(f\n x)", "é\"\\"):
            for is_t in (False, True):
                for kids in ([x], [x, S(">")], [x, S(">"), S("<")], [x, ["FComponent", None, None, True, [x]]], [S("s"), x, x]):
                    fc = ["FComponent", conv, expr, is_t, kids]
                    out.append(fc)
                    out.append(["FString", None, not is_t, [fc]])
                    out.append(["Expression", [Sym("quote"), fc]])
    for a in atoms:
        out.append(["FComponent", None, None, False, [a]])
        out.append(["FString", None, False, [["FComponent", "r", "e", False, [a, a]]]])
    return out


# ------------------------------------------------------------------ tiered spaces shared by C25 / C30

SPACE = {
    "quick": dict(text_n=3, terms_depth2=True, fstr_spec_len=2, fstr_nested=True, fstr_multi=3, str_n=3),
    "thorough": dict(text_n=4, terms_depth2=True, fstr_spec_len=3, fstr_nested=True, fstr_multi=4, str_n=5),
}
_FAM_CACHE = {}


def blocks(name, tier):
    """JSON-able block descriptors of a family; a shard is one block (or an
    index range of the `terms` list)."""
    b = SPACE[tier]
    if name == "fstrings":
        return fstring_blocks()
    if name == "strings":
        return string_blocks(b["str_n"])
    if name == "terms":
        n = len(family("terms", tier))
        step = 700
        return [[lo, min(n, lo + step)] for lo in range(0, n, step)]
    if name in ("atoms", "constructed"):
        return [[0]]
    raise KeyError(name)


def block_specs(name, tier, blk):
    b = SPACE[tier]
    if name == "fstrings":
        v = fam_fstrings_block(blk, b["fstr_spec_len"], b["fstr_nested"], b["fstr_multi"])
    elif name == "strings":
        v = fam_strings_block(blk, b["str_n"])
    elif name == "terms":
        v = family("terms", tier)[blk[0]:blk[1]]
    else:
        v = family(name, tier)
    seen = set()
    out = []
    for s in v:
        kk = key(s)
        if kk not in seen:
            seen.add(kk)
            out.append(s)
    return out


def family(name, tier):
    k = (name, tier)
    if k not in _FAM_CACHE:
        b = SPACE[tier]
        if name == "terms":
            v = fam_terms(ATOMS_FULL, ATOMS_SMALL, b["terms_depth2"])
        elif name == "atoms":
            v = list(ATOMS_FULL)
        elif name == "constructed":
            v = fam_constructed_only(ATOMS_FULL)
        else:
            raise KeyError(name)
        seen = set()
        out = []
        for s in v:
            kk = key(s)
            if kk not in seen:
                seen.add(kk)
                out.append(s)
        _FAM_CACHE[k] = out
    return _FAM_CACHE[k]


def space_bounds(tier):
    b = SPACE[tier]
    return {
        "text_tokens": TOKENS, "text_max_tokens": b["text_n"],
        "atoms": [key(a) for a in ATOMS_FULL], "small_atoms": [key(a) for a in ATOMS_SMALL],
        "special_heads": [h[1] for h in HEADS],
        "terms": "every sequence kind x 0..2 atoms (3 over the small pool for Dict/Expression/List); every special head x 1..2 arguments and x 3 symbols; one more level of nesting over a reduced pool",
        "fstring_kinds": [list(k) for k in FSTR_KINDS], "fstring_first_forms": [key(c) for c in CHILD0],
        "fstring_conversions": CONVS, "fstring_spec_max_components": b["fstr_spec_len"],
        "fstring_nested_spec_fields": b["fstr_nested"], "fstring_max_parts": b["fstr_multi"],
        "string_alphabet": STR_ALPHA, "string_delimiters": STR_DELIMS, "string_max_len": b["str_n"],
    }
