"""f-string structures rendered as Hy text and as the equivalent Python text (C24).

A structure is a list of parts (JSON-able):

  ["L", i]                                  literal chunk CHUNKS[i]
  ["F", e, conv, dbg, s, spaced]            replacement field
        e      index into EXPRS
        conv   "" | "s" | "r" | "a"
        dbg    0 no `=` | 1 `=` with only the whitespace Hy needs | 2 ` EXPR = ` (spaces everywhere)
        s      index into SPECS
        spaced 0 minimal whitespace | 1 whitespace between form, `=`, `!conv` and `:spec`
  malformed parts (exactly one per malformed structure):
  ["Xconv", e, c]        unknown conversion character c
  ["Xrbrace"]            a single `}` in literal text
  ["Xopen", e, conv, s]  a field whose closing brace is missing
  ["Xjunk", e, where]    a second form after the form (0), after `!r` (1), after `=` (2)
  ["Xempty", ws]         `{}` / `{ }`
  ["Xlone"]              a lone `{` (only as the last part)
  ["Xnoconv", e]         `!` without a conversion character
  ["Xbadesc"]            the unrecognised escape \\q in literal text (malformed only in
                         mode q; the bracket form is raw, there it is plain text)

Two modes: "q" = f"..." (escapes processed), "b" = #[f[...]f] (a bracket
string: raw).  The Python rendering is f\"\"\"...\"\"\" and rf\"\"\"...\"\"\"
respectively, with exactly the same literal text; only the code inside the
fields is translated, and the separators Hy needs to end a form are dropped.
The whitespace around a debugging `=` is kept verbatim, because both
languages echo it.  For expressions whose Hy and Python texts differ, the
echoed text differs in the same way; `expected_from_python` substitutes it.
"""

CHUNKS = ["a", "{{", "}}", "\\N{OX}", "\\n", "'", "\\\"", "]", "\\\\N", "\\\\"]
#          0     1     2      3         4     5     6      7
# "]" is interesting only inside a bracket f-string; "\N{OX}" is an escape in
# mode q and (being raw) backslash-N followed by a field `OX` in mode b.

EXPRS = [
    {"hy": "x", "py": "x"},
    {"hy": "(+ x 1)", "py": "(x + 1)"},
    {"hy": "\"s\"", "py": "\"s\""},
    {"hy": "f\"{x}\"", "py": "f\"{x}\""},
    {"hy": "(do (setv q 1) q)", "py": "(q := 1)"},
    {"hy": "[x]", "py": "[x]"},
]

# a spec is a list of pieces: a string (literal) or [hy_field, py_field]
SPECS = [
    None,
    [">5"],
    [["{w}", "{w}"]],
    [">", ["{w}", "{w}"]],
    [["{w}", "{w}"], ".", ["{p}", "{p}"], "f"],
    [">", ["{w !r}", "{w!r}"]],
    ["\\N{OX}>5"],
    [],
]
SPEC_NAMES = ["none", "literal", "field", "lit+field", "field.field", "field-with-conversion", "named-escape", "empty"]

ENVS = [
    {"x": 42, "w": 6, "p": 2, "OX": "ox"},
    {"x": 3.14159, "w": 6, "p": 2, "OX": "ox"},
    {"x": "hé\n'q", "w": 6, "p": 2, "OX": "ox"},
]


def _ends_delim(text):
    return text[-1] in ")\"]"


def _spec_text(s, lang):
    return "".join(p if isinstance(p, str) else p[0 if lang == "hy" else 1] for p in SPECS[s])


def field_hy(e, conv, dbg, s, spaced):
    ex = EXPRS[e]["hy"]
    need = "" if _ends_delim(ex) else " "
    out = "{"
    if dbg == 2:
        out += " " + ex + " = "
        sep = ""
    elif dbg == 1:
        out += ex + (" " if spaced else need) + "=" + (" " if spaced else "")
        sep = ""
    else:
        out += ex
        sep = " " if spaced else need
    if conv:
        out += sep + "!" + conv
        sep = " " if spaced else ""
    if SPECS[s] is not None:
        out += sep + ":" + _spec_text(s, "hy")
    return out + "}"


def field_py(e, conv, dbg, s, spaced):
    ex = EXPRS[e]["py"]
    hyex = EXPRS[e]["hy"]
    need = "" if _ends_delim(hyex) else " "
    out = "{"
    if dbg == 2:
        out += " " + ex + " = "
    elif dbg == 1:
        out += ex + (" " if spaced else need) + "=" + (" " if spaced else "")
    else:
        out += ex
    if conv:
        out += "!" + conv
    if SPECS[s] is not None:
        out += ":" + _spec_text(s, "py")
    return out + "}"


def part_hy(p):
    k = p[0]
    if k == "L":
        return CHUNKS[p[1]]
    if k == "F":
        return field_hy(*p[1:])
    if k == "Xconv":
        ex = EXPRS[p[1]]["hy"]
        return "{" + ex + ("" if _ends_delim(ex) else " ") + "!" + p[2] + "}"
    if k == "Xrbrace":
        return "}"
    if k == "Xopen":
        return field_hy(p[1], p[2], 0, p[3], 0)[:-1]
    if k == "Xjunk":
        ex = EXPRS[p[1]]["hy"]
        need = "" if _ends_delim(ex) else " "
        if p[2] == 0:
            return "{" + ex + " y}"
        if p[2] == 1:
            return "{" + ex + need + "!r y}"
        return "{" + ex + need + "= y}"
    if k == "Xempty":
        return "{" + p[1] + "}"
    if k == "Xlone":
        return "{"
    if k == "Xbadesc":
        return "\\q"
    if k == "Xnoconv":
        ex = EXPRS[p[1]]["hy"]
        return "{" + ex + ("" if _ends_delim(ex) else " ") + "!}"
    raise ValueError(p)


def render_hy(parts, mode):
    body = "".join(part_hy(p) for p in parts)
    return ("f\"" + body + "\"") if mode == "q" else ("#[f[" + body + "]f]")


def render_py(parts, mode):
    body = "".join(CHUNKS[p[1]] if p[0] == "L" else field_py(*p[1:]) for p in parts)
    return ("f" if mode == "q" else "rf") + "\"\"\"" + body + "\"\"\""


def expected_from_python(parts, out):
    """Python's result with the echoed Python code of debugging fields
    replaced by the Hy code that Hy echoes."""
    for p in parts:
        if p[0] == "F" and p[3]:
            ex = EXPRS[p[1]]
            if ex["hy"] != ex["py"]:
                out = out.replace(ex["py"], ex["hy"])
    return out


def features(parts, mode):
    f = set()
    for p in parts:
        if p[0] == "L":
            f.add({0: "chunk", 1: "chunk-lbrace2", 2: "chunk-rbrace2", 3: "chunk-named-escape", 4: "chunk-escape",
                   5: "chunk-squote", 6: "chunk-escaped-dquote", 7: "chunk-rbracket",
                   8: "chunk-escaped-backslash-N", 9: "chunk-escaped-backslash"}[p[1]])
        elif p[0] == "F":
            f.add("expr-" + ["symbol", "call", "string", "nested-fstring", "do-setv", "list"][p[1]])
            if p[2]:
                f.add("conv")
            if p[3]:
                f.add("debug")
            if p[4]:
                f.add("spec-" + SPEC_NAMES[p[4]])
            if p[5]:
                f.add("spaced")
        else:
            f.add(p[0])
    return ",".join(sorted(f))


def nontrivial(parts):
    return any((p[0] == "L" and p[1] != 0) or (p[0] == "F" and (p[2] or p[3] or p[4])) or p[0].startswith("X")
               for p in parts)


# ---------------------------------------------------------------- part pools

def fields(exprs, convs, dbgs, specs, spacings):
    out = []
    for e in exprs:
        for c in convs:
            for d in dbgs:
                for s in specs:
                    for sp in spacings:
                        out.append(["F", e, c, d, s, sp])
    return out


def pool(name):
    chunks = [["L", i] for i in range(len(CHUNKS))]
    if name == "full":
        return chunks + fields(range(6), ["", "s", "r", "a"], [0, 1, 2], range(len(SPECS)), [0, 1])
    if name == "med":
        return chunks + fields(range(5), ["", "s", "r", "a"], [0, 1, 2], [0, 1, 3, 4, 7], [0])
    if name == "med3":
        return chunks[:7] + fields([0, 1, 2, 3], ["", "r"], [0, 1, 2], [0, 3, 4], [0])
    if name == "small":
        return chunks[:7] + fields([0, 1, 2], ["", "r"], [0, 1], [0, 3], [0])
    raise ValueError(name)


def malformed_parts():
    out = []
    for e in (0, 1, 2):
        for c in ("z", "R", "1"):
            out.append(["Xconv", e, c])
        for c in ("", "r"):
            for s in (0, 1, 3):
                out.append(["Xopen", e, c, s])
        for w in (0, 1, 2):
            out.append(["Xjunk", e, w])
        out.append(["Xnoconv", e])
    out.append(["Xrbrace"])
    out.append(["Xempty", ""])
    out.append(["Xempty", " "])
    out.append(["Xlone"])
    out.append(["Xbadesc"])
    return out
