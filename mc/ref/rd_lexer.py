"""rd_lexer — a lexical state machine for Hy text (DESIGN §3.3).

A direct transcription of docs/syntax.rst into a character-at-a-time pushdown
machine.  It knows nothing about how hy/reader is implemented; it only knows

* ASCII whitespace = U+0009..U+000D and U+0020; it separates forms;
* identifier characters = everything except ASCII whitespace and ()[]{};"'`~ ;
  an identifier-like token (symbol, number, keyword, dotted identifier, and
  the name after '#') is a maximal run of identifier characters;
* ';' starts a comment that runs through the end of the line;
* '"' starts a string literal, an identifier-like token directly followed by
  '"' is a string prefix (only combinations of r, b, f, t are prefixes);
  backslash escapes the next character; bracket strings '#[FOO[' … ']FOO]';
  FOO == 'f' or starting with 'f-' makes it an f-string;
* f-strings: '{{' and '}}' are literal braces, '\\N{…}' is a named escape in a
  non-raw f-string, '{' starts a replacement field = whitespace/comments,
  exactly one form, optional whitespace, optional '=', optional '!c',
  optional whitespace, optional ':' format spec (text with nested fields),
  then '}';
* ( [ { #( #{ open sequences, closed by ) ] } ) };
* ' ` ~ ~@ #* #** take the next form, #^ takes the next two, #_ reads and
  discards the next form (it is not a form itself).

For a text it yields, per cut point i (0..len), the stack of open constructs
after the first i characters, whether an identifier-like token is in
progress, and how many top-level forms are complete.  `classify` turns that
into the C19 classes:

  between-forms          nothing open, no prefix pending, not inside a token
  inside-open-construct  a delimited construct (sequence, string, bracket
                         string, f-string, replacement field) is open
  after-prefix           the innermost open thing is a prefix awaiting a form
  mid-token-at-top-level the cut splits an identifier-like token and no
                         delimited construct is open (documentation silent:
                         the prefix is a different, possibly invalid, token)
  illformed              the prefix cannot be extended to a well-formed text
                         under the rules above (never for generated texts)
"""

WS = " \t\n\r\x0b\x0c"
NON_IDENT = "()[]{};\"'`~"

SEQ_OPEN = {"(": ("paren", ")"), "[": ("brack", "]"), "{": ("brace", "}")}
HASH_OPEN = {"(": ("tuple", ")"), "{": ("set", "}")}
SEQ_KINDS = ("paren", "brack", "brace", "tuple", "set")
PREFIX_CHARS = {"'": "quote", "`": "quasiquote", "~": "unquote"}
PREFIX_TAGS = {"_": ("#_", 1), "*": ("#*", 1), "**": ("#**", 1), "^": ("#^", 2)}
STRING_PREFIX_LETTERS = set("bfrt")
ESCAPABLE = "\n\r\\'\"abfnrtv01234567x"

BETWEEN = "between-forms"
INSIDE = "inside-open-construct"
AFTER_PREFIX = "after-prefix"
MIDTOK = "mid-token-at-top-level"
ILLFORMED = "illformed"


def is_ws(c):
    return c != "" and c in WS


def is_ident_char(c):
    return c != "" and c not in WS and c not in NON_IDENT


def valid_string_prefix(p):
    """r, b, f, t in lowercase, each at most once, and at most one of b/f/t
    (the empty prefix is an ordinary string)."""
    s = set(p)
    return len(s) == len(p) and s <= STRING_PREFIX_LETTERS and len(s - {"r"}) <= 1


class Frame:
    __slots__ = ("kind", "closer", "needs", "phase", "start", "raw", "bytes_", "esc", "delim",
                 "tail", "sub", "named", "prev2", "quote", "skipnl")

    def __init__(self, kind, start, **kw):
        self.kind = kind
        self.start = start
        self.closer = None
        self.needs = 0
        self.phase = None
        self.raw = False
        self.bytes_ = False
        self.esc = False
        self.delim = None
        self.tail = ""
        self.sub = "text"
        self.named = False
        self.prev2 = ""
        self.quote = True     # closed by '"' (else by ]delim])
        self.skipnl = 0
        for k, v in kw.items():
            setattr(self, k, v)

    def copy(self):
        f = Frame.__new__(Frame)
        for s in Frame.__slots__:
            setattr(f, s, getattr(self, s))
        return f

    def label(self):
        k = self.kind
        if k == "prefix":
            return "prefix:" + self.closer + (":%d" % self.needs if self.closer == "#^" else "")
        if k == "field":
            return "field:" + self.phase
        if k in ("fstr", "fspec"):
            return k + ":" + self.sub
        return k


def is_delimited(label):
    return not (label.startswith("prefix:") or label == "comment")


class Lexer:
    def __init__(self):
        self.stack = []
        self.tok = None          # [kind, text, start]; kind 'ident' | 'hash'
        self.error = None
        self.pos = 0
        self.top = []            # top-level elements (kind, start, end)
        self.ntop = 0
        self.tilde = None

    def clone(self):
        o = Lexer.__new__(Lexer)
        o.stack = [f.copy() for f in self.stack]
        o.tok = list(self.tok) if self.tok else None
        o.error = self.error
        o.pos = self.pos
        o.top = list(self.top)
        o.ntop = self.ntop
        o.tilde = None
        return o

    # ------------------------------------------------------------ helpers
    def _err(self, msg):
        if self.error is None:
            self.error = msg

    def _form_complete(self, start, end=None):
        """A form whose text is [start, end) has just been completed."""
        if end is None:
            end = self.pos
        while True:
            top = self.stack[-1] if self.stack else None
            if top is None:
                self.top.append(("form", start, end))
                self.ntop += 1
                return
            if top.kind == "prefix":
                top.needs -= 1
                if top.needs > 0:
                    return
                self.stack.pop()
                start = top.start
                if top.closer == "#_":
                    if not self.stack:
                        self.top.append(("discard", start, end))
                    return
                continue
            if top.kind == "field":
                if top.phase == "before-form":
                    top.phase = "after-form"
                else:
                    self._err("second form in a replacement field")
                return
            return          # sequence: stays open

    def _end_token(self, end=None):
        kind, text, start = self.tok
        self.tok = None
        if kind == "ident":
            self._form_complete(start, end)
            return
        # '#' + name
        if text in PREFIX_TAGS:
            name, needs = PREFIX_TAGS[text]
            self.stack.append(Frame("prefix", start, closer=name, needs=needs))
        elif text == "":
            self._err("'#' followed by nothing it can dispatch on")
        else:
            self._err("reader macro '#%s' is outside the modelled language" % text)

    def _open_string(self, prefix, start):
        if not valid_string_prefix(prefix):
            self._err("invalid string prefix %r" % prefix)
            return
        raw = "r" in prefix
        if "f" in prefix or "t" in prefix:
            self.stack.append(Frame("fstr", start, raw=raw, quote=True))
        else:
            self.stack.append(Frame("str", start, raw=raw, bytes_="b" in prefix))

    # ------------------------------------------------------------ feeding
    def feed(self, c):
        self.pos += 1
        if self.error is not None:
            return
        tilde, self.tilde = self.tilde, None
        top = self.stack[-1] if self.stack else None
        if self.tok is not None:
            self._in_token(c)
            return
        if top is None:
            self._code(c)
            return
        k = top.kind
        if k in SEQ_KINDS:
            self._code(c)
        elif k == "prefix":
            if tilde is top and c == "@":
                top.closer = "unquote-splice"
                return
            self._code(c)
        elif k == "field":
            if top.phase == "before-form":
                self._code(c)
            else:
                self._field_after(top, c)
        elif k == "comment":
            if c == "\n":
                self.stack.pop()
                if not self.stack:
                    self.top.append(("comment", top.start, self.pos))
        elif k == "str":
            self._str(top, c)
        elif k == "bstr-delim":
            self._bstr_delim(top, c)
        elif k == "bstr":
            self._bstr(top, c)
        elif k in ("fstr", "fspec"):
            self._ftext(top, c)
        else:  # pragma: no cover
            raise AssertionError(k)

    def _in_token(self, c):
        kind, text, start = self.tok
        if kind == "ident":
            if is_ident_char(c):
                self.tok[1] = text + c
                return
            if c == '"':
                self.tok = None
                self._open_string(text, start)
                return
            self._end_token(self.pos - 1)
            self._refeed(c)
            return
        # hash
        if text == "":
            if c in HASH_OPEN:
                self.tok = None
                name, closer = HASH_OPEN[c]
                self.stack.append(Frame(name, start, closer=closer))
                return
            if c == "[":
                self.tok = None
                self.stack.append(Frame("bstr-delim", start, delim=""))
                return
            if is_ident_char(c):
                self.tok[1] = c
                return
            self._err("'#' followed by %r" % c)
            return
        if is_ident_char(c):
            self.tok[1] = text + c
            return
        self._end_token(self.pos - 1)
        self._refeed(c)

    def _refeed(self, c):
        self.pos -= 1
        self.feed(c)

    def _code(self, c):
        if c in WS:
            return
        start = self.pos - 1
        if c == ";":
            self.stack.append(Frame("comment", start))
        elif c == '"':
            self.stack.append(Frame("str", start))
        elif c in SEQ_OPEN:
            name, closer = SEQ_OPEN[c]
            self.stack.append(Frame(name, start, closer=closer))
        elif c in ")]}":
            top = self.stack[-1] if self.stack else None
            if top is not None and top.kind in SEQ_KINDS and top.closer == c:
                self.stack.pop()
                self._form_complete(top.start)
            else:
                self._err("unexpected closer %r" % c)
        elif c in PREFIX_CHARS:
            f = Frame("prefix", start, closer=PREFIX_CHARS[c], needs=1)
            self.stack.append(f)
            if c == "~":
                self.tilde = f
        elif c == "#":
            self.tok = ["hash", "", start]
        else:
            self.tok = ["ident", c, start]

    def _field_after(self, f, c):
        ph = f.phase
        if ph == "after-bang":
            f.phase = "after-conv"
            return
        if c in WS:
            return
        if c == "}":
            self.stack.pop()
            self._field_closed()
        elif c == ":":
            self.stack.append(Frame("fspec", self.pos - 1))
        elif c == "!" and ph in ("after-form", "after-eq"):
            f.phase = "after-bang"
        elif c == "=" and ph == "after-form":
            f.phase = "after-eq"
        else:
            self._err("trailing junk in replacement field")

    def _field_closed(self):
        top = self.stack[-1]
        top.tail = ""
        top.sub = "text"
        top.prev2 = ""

    def _str(self, f, c):
        if c == "\\":
            f.esc = not f.esc
            return
        if c == '"' and not f.esc:
            self.stack.pop()
            self._form_complete(f.start)
            return
        if f.esc and not f.raw and c not in ESCAPABLE + ("" if f.bytes_ else "NuU"):
            self._err("invalid escape sequence")
        f.esc = False

    def _bstr_delim(self, f, c):
        if c == "[":
            d = f.delim
            if d == "f" or d.startswith("f-"):
                f.kind = "fstr"
                f.raw = True
                f.quote = False
            else:
                f.kind = "bstr"
            f.tail = ""
        elif c == "]":
            self._err("']' in a bracket-string delimiter")
        else:
            f.delim += c

    def _bclosed(self, f, c):
        f.tail = (f.tail + c)[-(len(f.delim) + 2):]
        return f.tail == "]" + f.delim + "]"

    def _bstr(self, f, c):
        if self._bclosed(f, c):
            self.stack.pop()
            self._form_complete(f.start)

    def _ftext(self, f, c):
        if f.sub == "lbrace":
            f.sub = "text"
            if c == "{":
                return
            self.stack.append(Frame("field", self.pos - 2, phase="before-form"))
            self._refeed(c)
            return
        if f.sub == "rbrace":
            if c == "}":
                f.sub = "text"
            else:
                self._err("single '}' in an f-string")
            return
        # closing?
        if f.kind == "fspec":
            if c == "}":
                self.stack.pop()      # the spec
                self.stack.pop()      # its field
                self._field_closed()
                return
        elif f.quote:
            if c == "\\":
                f.esc = not f.esc
                f.prev2 = (f.prev2 + c)[-2:]
                return
            if c == '"' and not f.esc:
                self.stack.pop()
                self._form_complete(f.start)
                return
            if f.esc and not f.raw and c not in ESCAPABLE + "NuU":
                self._err("invalid escape sequence")
            f.esc = False
        else:
            if self._bclosed(f, c):
                self.stack.pop()
                self._form_complete(f.start)
                return
        if c == "{":
            if f.quote and not f.raw and f.prev2 == "\\N":
                f.named = True
            else:
                f.sub = "lbrace"
        elif c == "}":
            if f.named:
                f.named = False
            else:
                f.sub = "rbrace"
        f.prev2 = (f.prev2 + c)[-2:]

    # ------------------------------------------------------------ views
    def labels(self):
        return tuple(f.label() for f in self.stack)

    def at_eof(self):
        """The machine as it stands if the text ends here: a token in
        progress is complete; a comment ends."""
        o = self.clone()
        if o.error is None and o.tok is not None:
            o._end_token()
        return o


class Snap:
    __slots__ = ("frames", "tok", "toktext", "ntop", "error", "eof_frames", "eof_ntop", "eof_error")

    def __repr__(self):
        return "Snap(%r tok=%r ntop=%r err=%r | eof %r %r %r)" % (
            self.frames, self.tok, self.ntop, self.error, self.eof_frames, self.eof_ntop, self.eof_error)


def scan(text):
    """Snapshots for every cut point 0..len(text)."""
    lx = Lexer()
    out = []

    def snap():
        s = Snap()
        s.frames = lx.labels()
        s.tok = lx.tok[0] if lx.tok else None
        s.toktext = lx.tok[1] if lx.tok else None
        s.ntop = lx.ntop
        s.error = lx.error
        if lx.tok is not None and lx.error is None:
            e = lx.at_eof()
            s.eof_frames, s.eof_ntop, s.eof_error = e.labels(), e.ntop, e.error
        else:
            s.eof_frames, s.eof_ntop, s.eof_error = s.frames, s.ntop, s.error
        out.append(s)
    snap()
    for c in text:
        lx.feed(c)
        snap()
    return out, lx


def continues_token(snap, nxt):
    """Does the character after the cut continue the token that is in
    progress at the cut (so that the cut splits a token)?"""
    if snap.tok is None or nxt == "":
        return False
    if is_ident_char(nxt):
        return True
    if snap.tok == "ident":
        return nxt == '"'                 # string prefix + opening quote
    return snap.toktext == "" and nxt in "([{"   # '#(' '#[' '#{'


def classify_snap(snap, nxt):
    """(class, state) for a cut where `snap` holds and `nxt` is the next
    character of the complete text ('' at its end).  `state` names the
    innermost open construct (with '+tok' when a token is in progress)."""
    if snap.error is not None:
        return ILLFORMED, "error"
    if continues_token(snap, nxt):
        frames = snap.frames
        inner = [f for f in frames if f != "comment"]
        state = (inner[-1] if inner else "top") + "+tok"
        if any(is_delimited(f) for f in frames):
            return INSIDE, state
        return MIDTOK, state
    if snap.eof_error is not None:
        return ILLFORMED, "error"
    frames = [f for f in snap.eof_frames if f != "comment"]
    incomment = len(frames) != len(snap.eof_frames)
    tokmark = "+tok" if snap.tok is not None else ""
    if not frames:
        return BETWEEN, ("comment" if incomment else "top") + tokmark
    state = frames[-1] + tokmark
    if frames[-1].startswith("prefix:"):
        return AFTER_PREFIX, state
    return INSIDE, state


def classify(text):
    """[(class, state, ntop_if_text_ended_here)] for every cut point."""
    snaps, _ = scan(text)
    out = []
    n = len(text)
    for i, s in enumerate(snaps):
        nxt = text[i] if i < n else ""
        cls, state = classify_snap(s, nxt)
        out.append((cls, state, s.eof_ntop))
    return out


def toplevel(text):
    """Top-level elements [(kind, start, end)] (kind: form | discard |
    comment) and the final machine, with the text's end taken as end of
    input.  `ok` is False when the text is not a sequence of whole forms."""
    lx = Lexer()
    for c in text:
        lx.feed(c)
    e = lx.at_eof()
    frames = e.labels()
    if frames == ("comment",):
        e.top.append(("comment", e.stack[-1].start, e.pos))
        frames = ()
    ok = e.error is None and not frames
    return e.top, ok, e
