"""Runner:  /venv/bin/python -m mc.run <ID> [--tier quick|thorough] [--replay FILE]

Outer process: prepares a clean environment (PYTHONPATH pointing at the tree
under test, fresh bytecode-cache prefix outside /repo and /verif, fixed hash
seed, bytecode writing enabled) and runs the inner process, then removes the
scratch directory.  Inner process: builds the tier's case space, farms shards
out to long-lived spawned workers, classifies disagreements against
known_findings.json, re-checks unknown ones in a fresh process (determinism
gate), writes replay files and the evidence file, prints KNOWN-FINDING /
VIOLATION lines and sets the exit status.
"""
import argparse
import importlib
import json
import os
import random
import shutil
import subprocess
import sys
import tempfile
import time
import traceback

VERIF = os.path.dirname(os.path.dirname(os.path.abspath(__file__)))


def _outer(argv):
    repo = os.environ.get("VERIF_REPO", "/repo")
    scratch_root = os.environ.get("VERIF_SCRATCH") or tempfile.gettempdir()
    scratch = tempfile.mkdtemp(prefix="hyverif-", dir=scratch_root)
    env = dict(os.environ)
    env.pop("PYTHONDONTWRITEBYTECODE", None)
    env["PYTHONPATH"] = repo + os.pathsep + VERIF
    env["PYTHONPYCACHEPREFIX"] = os.path.join(scratch, "pyc")
    env["PYTHONHASHSEED"] = env.get("MC_HASHSEED", "0")
    env["PYTHONUNBUFFERED"] = "1"
    env["MC_INNER"] = "1"
    env["MC_SCRATCH"] = scratch
    env["VERIF_REPO"] = repo
    env["HY_VERIF"] = "1"
    try:
        p = subprocess.run([sys.executable, "-m", "mc.run", *argv], env=env, cwd=VERIF)
        return p.returncode
    finally:
        shutil.rmtree(scratch, ignore_errors=True)


# ---------------------------------------------------------------- workers

def _worker_init():
    sys.dont_write_bytecode = False
    import signal
    signal.signal(signal.SIGINT, signal.SIG_IGN)


def _load(check_id):
    return importlib.import_module("checks." + check_id.lower())


_WARM = [False]


def _warm():
    """Import hy (and compile its core .hy files) once per worker, outside any
    per-case watchdog, so a slow first import can't be mistaken for a case
    outcome or leave a partially initialised module behind."""
    if not _WARM[0]:
        import hy
        import hy.compiler, hy.core.result_macros, hy.core.hy_repr, hy.core.util, hy.reader, hy.repl  # noqa
        hy.eval(hy.read("(do (setv _w 1) (when _w (lfor i [1] i)))"), {})
        _WARM[0] = True


def _work(args):
    check_id, shard, tier = args
    t0 = time.time()
    try:
        _warm()
        mod = _load(check_id)
        res = mod.run_shard(shard, tier)
        res["_wall"] = time.time() - t0
        for d in res.get("disagreements", []):
            d["_shard"] = shard
        return res
    except BaseException:
        return {"_crash": traceback.format_exc(), "_shard": shard}


def _recheck_main(check_id, tier, case_json):
    """Fresh-process re-execution of one case (determinism gate / replay)."""
    _warm()
    mod = _load(check_id)
    case = json.loads(case_json)
    out = mod.recheck(case, tier)
    print("MC_RECHECK_RESULT " + json.dumps(out, default=str))


def rerun_shard_in_fresh_process(check_id, tier, shard):
    """Second stage of the determinism gate: a disagreement that does not reproduce when its case is run alone may depend on
    the cases run before it in the same process (state leaking between calls is exactly what several properties forbid).
    Re-run the whole shard, in order, in a fresh process."""
    p = subprocess.run(
        [sys.executable, "-m", "mc.run", check_id, "--tier", tier, "--recheck-shard", json.dumps(shard, default=str)],
        capture_output=True, text=True, cwd=VERIF, timeout=3600)
    for line in p.stdout.splitlines():
        if line.startswith("MC_RECHECK_RESULT "):
            return json.loads(line[len("MC_RECHECK_RESULT "):])
    return []


def recheck_in_fresh_process(check_id, tier, case):
    p = subprocess.run(
        [sys.executable, "-m", "mc.run", check_id, "--tier", tier,
         "--recheck-case", json.dumps(case, default=str)],
        capture_output=True, text=True, cwd=VERIF, timeout=600)
    for line in p.stdout.splitlines():
        if line.startswith("MC_RECHECK_RESULT "):
            return json.loads(line[len("MC_RECHECK_RESULT "):])
    return [{"kind": "recheck-crashed", "sig": "recheck-crashed",
             "detail": (p.stdout[-2000:] + p.stderr[-2000:])}]


# ---------------------------------------------------------------- inner

def _merge_counts(into, frm):
    for k, v in frm.items():
        into[k] = into.get(k, 0) + v


def _inner(argv):
    from mc import evidence, findings
    ap = argparse.ArgumentParser()
    ap.add_argument("check")
    ap.add_argument("--tier", default=os.environ.get("VERIF_TIER", "quick"))
    ap.add_argument("--replay")
    ap.add_argument("--recheck-case")
    ap.add_argument("--recheck-shard")
    ap.add_argument("--workers", type=int, default=int(os.environ.get("MC_WORKERS", "16")))
    ap.add_argument("--no-evidence", action="store_true")
    a = ap.parse_args(argv)
    check_id = a.check.upper()
    tier = a.tier if a.tier in ("quick", "thorough") else "quick"
    sys.dont_write_bytecode = False

    if a.recheck_case is not None:
        _recheck_main(check_id, tier, a.recheck_case)
        return 0
    if a.recheck_shard is not None:
        _warm()
        res = _load(check_id).run_shard(json.loads(a.recheck_shard), tier)
        print("MC_RECHECK_RESULT " + json.dumps(res.get("disagreements", []), default=str))
        return 0

    if a.replay:
        rp = json.load(open(a.replay))
        r1 = recheck_in_fresh_process(check_id, rp.get("tier", tier), rp["case"])
        r2 = recheck_in_fresh_process(check_id, rp.get("tier", tier), rp["case"])
        same = json.dumps(r1, sort_keys=True) == json.dumps(r2, sort_keys=True)
        print(json.dumps({"deterministic": same, "disagreements": r1}, indent=1))
        if not same:
            print("REPLAY-NONDETERMINISTIC")
            return 2
        if r1:
            print(f"VIOLATION property={check_id} replay={a.replay}")
            return 1
        print("replay: property holds on this case")
        return 0

    try:
        seed = int(os.environ.get("VERIF_SEED", "0"))
    except ValueError:
        seed = 0
    mod = _load(check_id)
    t0 = time.time()
    shards = list(mod.shards(tier))
    order = list(range(len(shards)))
    random.Random(seed).shuffle(order)      # order only; the space is fixed
    budget = getattr(mod, "TIME_CAP", {}).get(tier)
    if os.environ.get("MC_TIME_CAP"):       # smoke runs of a deep tier: stop submitting shards earlier (reported as a cap)
        budget = min(budget or 10 ** 9, int(os.environ["MC_TIME_CAP"]))

    from concurrent.futures import ProcessPoolExecutor, as_completed
    import multiprocessing
    ctx = multiprocessing.get_context("spawn")
    nworkers = max(1, min(a.workers, len(shards)))
    results = []
    crashes = []
    caps_hit = []
    with ProcessPoolExecutor(nworkers, mp_context=ctx, initializer=_worker_init) as ex:
        pending = set()
        it = iter(order)
        exhausted = False

        def feed():
            nonlocal exhausted
            while len(pending) < nworkers * 2 and not exhausted:
                if budget and time.time() - t0 > budget:
                    exhausted = True
                    caps_hit.append(f"time cap {budget}s: shard submission stopped")
                    return
                try:
                    i = next(it)
                except StopIteration:
                    exhausted = True
                    return
                pending.add(ex.submit(_work, (check_id, shards[i], tier)))
        feed()
        from concurrent.futures import wait, FIRST_COMPLETED
        while pending:
            done, _ = wait(pending, return_when=FIRST_COMPLETED)
            for f in done:
                pending.discard(f)
                try:
                    r = f.result()
                except BaseException as e:  # worker died
                    r = {"_crash": f"worker died: {e!r}"}
                if "_crash" in r:
                    crashes.append(r)
                else:
                    results.append(r)
            feed()
    done_shards = len(results)

    agg = dict(states=0, transitions=0, traces=0, evaluations=0, nontrivial=0, unspecified=0)
    outcomes = {}
    extra_counts = {}
    samples = []
    disagreements = []
    for r in results:
        for k in agg:
            agg[k] += int(r.get(k, 0))
        _merge_counts(outcomes, r.get("outcomes", {}))
        _merge_counts(extra_counts, r.get("counts", {}))
        for s in r.get("samples", []):
            if len(samples) < 12:
                samples.append(s)
        caps_hit.extend(r.get("caps_hit", []))
        disagreements.extend(r.get("disagreements", []))
    disagreements.sort(key=lambda d: (len(json.dumps(d.get("case"), default=str)), json.dumps(d.get("case"), default=str)))

    kf = findings.load(check_id)
    known_hits = {}
    unknown = []
    for d in disagreements:
        ent = findings.match(kf, d)
        if ent is not None:
            known_hits.setdefault(ent["id"], [ent, 0])[1] += 1
        else:
            unknown.append(d)

    # determinism gate on unknown disagreements (grouped by signature)
    confirmed = []
    flaky = []
    by_sig = {}
    for d in unknown:
        by_sig.setdefault(d.get("sig", d.get("kind")), []).append(d)
    sig_items = list(by_sig.items())
    GATE = 48      # signatures re-checked in fresh processes; any beyond that are reported unchecked (never dropped)

    def _gate(item):
        sig, ds = item
        try:
            return recheck_in_fresh_process(check_id, tier, ds[0]["case"])
        except Exception as e:
            return [{"kind": "recheck-crashed", "sig": "recheck-crashed", "detail": repr(e)}]
    from concurrent.futures import ThreadPoolExecutor
    with ThreadPoolExecutor(8) as tp:
        agains = list(tp.map(_gate, sig_items[:GATE]))
    for (sig, ds), again in zip(sig_items[:GATE], agains):
        d = ds[0]
        if any(x.get("sig", x.get("kind")) == sig for x in again):
            confirmed.append((d, len(ds)))
        elif again and again[0].get("kind") == "recheck-crashed":
            confirmed.append((d, len(ds)))
        else:
            # not reproduced alone: does it reproduce with its history (the shard re-run in order in a fresh process)?
            again2 = []
            if d.get("_shard") is not None:
                try:
                    again2 = rerun_shard_in_fresh_process(check_id, tier, d["_shard"])
                except Exception:
                    again2 = []
            if any(x.get("sig", x.get("kind")) == sig for x in again2):
                d["history_dependent"] = ("the case alone agrees with the reference in a fresh process, but re-running its whole shard in order "
                                          "in a fresh process reproduces the disagreement: the outcome depends on earlier calls in the same process")
                confirmed.append((d, len(ds)))
            else:
                flaky.append({"case": d.get("case"), "first": d, "again": again})
    for sig, ds in sig_items[GATE:]:
        confirmed.append((ds[0], len(ds)))

    viol_lines = []
    os.makedirs(os.path.join(VERIF, "replays"), exist_ok=True)
    for n, (d, cnt) in enumerate(confirmed):
        path = os.path.join(VERIF, "replays", f"{check_id}-{n}.json")
        snippet = None
        if hasattr(mod, "snippet"):
            try:
                snippet = mod.snippet(d)
            except Exception:
                snippet = None
        with open(path, "w") as fh:
            json.dump({"property": check_id, "tier": tier, "case": d.get("case"), "shard": d.get("_shard"),
                       "disagreement": d, "same_signature_count": cnt,
                       "standalone_snippet": snippet,
                       "replay_cmd": f"/venv/bin/python -m mc.run {check_id} --replay {path}"},
                      fh, indent=1, default=str)
        viol_lines.append(f"VIOLATION property={check_id} replay={path}")
    for n, c in enumerate(crashes):
        path = os.path.join(VERIF, "replays", f"{check_id}-crash-{n}.json")
        with open(path, "w") as fh:
            json.dump({"property": check_id, "harness_crash": c}, fh, indent=1, default=str)
        viol_lines.append(f"VIOLATION property={check_id} replay={path}")

    exhaustive = (not caps_hit) and (not crashes) and done_shards == len(shards)
    wall = time.time() - t0
    cov = {
        "states": agg["states"],
        "transitions": agg["transitions"],
        "traces_validated_against_impl": agg["traces"],
        "evaluations": agg["evaluations"],
        "distinct_nontrivial": agg["nontrivial"],
        "rule": getattr(mod, "RULE", ""),
        "samples": samples or ["<no samples>"],
        "exhaustive": bool(exhaustive),
        "bounds": mod.bounds(tier) if hasattr(mod, "bounds") else {},
        "outcome_classes": len(outcomes),
        "outcomes": dict(sorted(outcomes.items(), key=lambda kv: -kv[1])[:40]),
        "counts": extra_counts,
        "unspecified_skipped": agg["unspecified"],
        "known_findings_hit": {k: v[1] for k, v in known_hits.items()},
        "caps_hit": sorted(set(caps_hit)),
        "shards": {"total": len(shards), "completed": done_shards},
        "harness_flaky": flaky[:5],
        "technique": getattr(mod, "TECHNIQUE", ""),
        "repo": os.environ.get("VERIF_REPO", "/repo"),
    }
    ev = {
        "property_id": check_id, "tier": tier, "seed": seed, "level": "model_checking",
        "coverage": cov, "assumptions": list(getattr(mod, "ASSUMPTIONS", [])),
        "wall_s": round(wall, 2), "violations": len(viol_lines),
    }
    if not a.no_evidence:
        evidence.write(check_id, ev)

    print(f"[{check_id}] tier={tier} seed={seed} shards={done_shards}/{len(shards)} "
          f"states={agg['states']} transitions={agg['transitions']} traces={agg['traces']} "
          f"evaluations={agg['evaluations']} nontrivial={agg['nontrivial']} "
          f"outcome_classes={len(outcomes)} unspecified={agg['unspecified']} "
          f"exhaustive={exhaustive} wall={wall:.1f}s")
    if len(outcomes) <= 1 and agg["evaluations"] > 0:
        print(f"[{check_id}] WARNING: only {len(outcomes)} outcome class(es) — vacuous?")
    for fk in flaky[:5]:
        print(f"[{check_id}] HARNESS-FLAKY (not reproduced in fresh process): {json.dumps(fk, default=str)[:400]}")
    for eid, (ent, cnt) in sorted(known_hits.items()):
        print(f"KNOWN-FINDING: property={check_id} {ent['id']}: {ent['what']} [{cnt} cases]")
    for line in viol_lines:
        print(line)
    if viol_lines:
        for d, cnt in confirmed[:10]:
            print(f"  - {d.get('kind')}: {json.dumps(d.get('case'), default=str)[:300]} :: {str(d.get('detail'))[:400]} (x{cnt})")
        for c in crashes[:3]:
            print("  - harness crash:", str(c.get("_crash"))[-1500:])
        return 1
    return 0


def main():
    argv = sys.argv[1:]
    if os.environ.get("MC_INNER") == "1":
        sys.exit(_inner(argv))
    sys.exit(_outer(argv))


if __name__ == "__main__":
    main()
