"""E2: explicit-state exploration of operation histories on REAL objects.

The objects under test (module-level state of hy, dictionaries handed to
hy.eval, ...) cannot be snapshotted, so a state is reached by *replay*:
`build(history)` resets the real objects to a fresh state and re-executes the
whole history, stepping a reference model in lock-step.  The explorer is a
breadth-first search over histories (shortest first, so the first history that
exhibits a problem is a shortest one).

A *system* is any object with

  reset()            -> ctx     fresh real state + fresh reference model.  Must
                                force the real state pristine (so that one
                                leaking history cannot contaminate the next).
  enabled(ctx, d)    -> [op]    JSON-able operations enabled after the history
                                replayed into ctx (d = its length)
  step(ctx, op)      -> [problem]   execute op on the real object AND on the
                                reference; return the invariant / comparison
                                failures of this step, each a dict
                                {kind, detail, sig, **flat fields}
  canon(ctx)         -> hashable    canonical form of the observable state at
                                the call boundary (object ids replaced by
                                labels, irrelevant detail dropped)
  mid_states(ctx)    -> iterable    (optional) canonical states observed
                                *inside* the last step (re-entrant points)
  outcome(ctx)       -> str         (optional) outcome class of the last step
  nontrivial(ctx)    -> bool        (optional) did the history exercise the
                                mechanism (check-specific rule)
  case(history)      -> JSON        what recheck() needs to rebuild the history

Two modes:

  prune=False  every history of length <= max_depth is executed (the
               quantifier "every history of <= k calls"); canonical states are
               only counted.
  prune=True   classical explicit-state search: a history is extended only if
               the canonical state it ends in has not been expanded before.
               Gives the exact reachable state graph (states, (state, op)
               edges) under the assumption that canon() captures the state;
               the unpruned mode is what guards that assumption.

A history whose last step reported a problem is never extended (the
counterexample is already minimal and its consequences share its root cause).
"""
import hashlib


def digest(x):
    return hashlib.sha1(repr(x).encode("utf-8", "backslashreplace")).hexdigest()[:16]


class Stats:
    def __init__(self):
        self.states = set()          # digests of canonical boundary states
        self.mid = set()             # digests of canonical mid-step states
        self.edges = 0               # (history, op) steps explored once each
        self.histories = 0           # histories replayed in lock-step with the reference
        self.steps = 0               # operations applied to the real object (incl. replay)
        self.max_depth = 0
        self.by_depth = {}           # history length -> histories executed
        self.pruned = 0              # histories not extended because their end state was already expanded
        self.bad = 0                 # histories ending in a problem
        self.nontrivial = 0
        self.replay_mismatch = 0     # a replayed prefix ended in a different state than when first built


class Explorer:
    def __init__(self, system, max_depth, prune=False, on_problem=None, on_history=None):
        self.sys = system
        self.max_depth = max_depth
        self.prune = prune
        self.on_problem = on_problem or (lambda history, problem: None)
        self.on_history = on_history or (lambda history, ctx: None)
        self.stats = Stats()

    # -- replay ------------------------------------------------------------
    def build(self, history, all_steps=False, parent_digest=None):
        """Replay `history` on fresh real state.  Returns (ctx, problems,
        state_digest) where problems are those of the last step (of every step
        if all_steps).  If parent_digest is given, the state after the prefix
        history[:-1] must have that digest (replay determinism self-check)."""
        s = self.sys
        ctx = s.reset()
        problems = []
        n = len(history)
        for i, op in enumerate(history):
            if i == n - 1 and parent_digest is not None and digest(s.canon(ctx)) != parent_digest:
                self.stats.replay_mismatch += 1
                problems.append({"kind": "harness-replay-nondeterministic", "sig": "harness-replay-nondeterministic",
                                 "detail": "replaying the prefix of this history did not reach the state it reached before"})
            ps = s.step(ctx, op)
            self.stats.steps += 1
            if all_steps or i == n - 1:
                problems.extend(ps)
            if hasattr(s, "mid_states"):
                for m in s.mid_states(ctx):
                    self.stats.mid.add(digest(m))
        return ctx, problems, digest(s.canon(ctx))

    # -- search ------------------------------------------------------------
    def run(self, roots=((),)):
        """BFS from the given root histories (default: the empty history)."""
        st = self.stats
        s = self.sys
        expanded = set()
        frontier = [(tuple(r), None) for r in roots]
        depth0 = min((len(r) for r, _ in frontier), default=0)
        for depth in range(depth0, self.max_depth + 1):
            nxt = []
            for history, parent_digest in frontier:
                if len(history) != depth:
                    nxt.append((history, parent_digest))
                    continue
                ctx, problems, dg = self.build(history, parent_digest=parent_digest)
                st.states.add(dg)
                st.max_depth = max(st.max_depth, len(history))
                st.by_depth[len(history)] = st.by_depth.get(len(history), 0) + 1
                if history:
                    st.histories += 1
                    st.edges += 1
                    if hasattr(s, "nontrivial") and s.nontrivial(ctx):
                        st.nontrivial += 1
                    self.on_history(history, ctx)
                if problems:
                    st.bad += 1
                    for p in problems:
                        self.on_problem(history, p)
                    continue
                if depth >= self.max_depth:
                    continue
                if self.prune:
                    if dg in expanded:
                        st.pruned += 1
                        continue
                    expanded.add(dg)
                for op in s.enabled(ctx, len(history)):
                    nxt.append((history + (op,), dg))
            frontier = nxt
            if not frontier:
                break
        return st


def replay(system, history):
    """Fresh replay of one history, reporting the problems of EVERY step
    (used by recheck())."""
    ex = Explorer(system, len(history))
    _, problems, _ = ex.build(tuple(history), all_steps=True)
    return problems


def report(acc, st, count_states=True, prefix=""):
    """Fold explorer statistics into an mc.util.Acc."""
    if count_states:
        acc.states += len(st.states | st.mid)
        acc.count(prefix + "boundary_states", len(st.states))
        acc.count(prefix + "mid_call_states", len(st.mid - st.states))
    else:
        acc.count(prefix + "states_seen_locally(not added to 'states')", len(st.states | st.mid))
    acc.transitions += st.edges
    acc.traces += st.histories
    acc.evaluations += st.steps
    acc.nontrivial += st.nontrivial
    acc.count(prefix + "histories_pruned_by_state", st.pruned)
    acc.count(prefix + "histories_ending_in_problem", st.bad)
    for d, n in sorted(st.by_depth.items()):
        if d:
            acc.count(prefix + "histories_of_length_%d" % d, n)
    if st.replay_mismatch:
        acc.count(prefix + "replay_mismatch", st.replay_mismatch)
