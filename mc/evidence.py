"""Evidence writer: /verif/evidence/<ID>.json, self-checked against the schema
rules that matter (model_checking level keys) and, when python3-vt is present,
validated against /root/.vp/EVIDENCE.schema.json in a subprocess."""
import json
import os
import shutil
import subprocess

VERIF = os.path.dirname(os.path.dirname(os.path.abspath(__file__)))
SCHEMA = "/root/.vp/EVIDENCE.schema.json"


def write(check_id, ev):
    cov = ev["coverage"]
    # schema minima for model_checking: states>=1, transitions>=1, samples non-empty
    assert isinstance(cov.get("samples"), list) and cov["samples"], "samples must be a non-empty list"
    for k in ("states", "transitions", "traces_validated_against_impl", "evaluations", "distinct_nontrivial"):
        assert isinstance(cov.get(k), int) and cov[k] >= 0, k
    os.makedirs(os.path.join(VERIF, "evidence"), exist_ok=True)
    path = os.path.join(VERIF, "evidence", f"{check_id}.json")
    tmp = path + ".tmp"
    with open(tmp, "w") as fh:
        json.dump(ev, fh, indent=1, default=str, sort_keys=True)
        fh.write("\n")
    os.replace(tmp, path)
    if os.environ.get("MC_VALIDATE_EVIDENCE", "1") == "1" and os.path.exists(SCHEMA) and shutil.which("python3-vt"):
        code = ("import json,sys,jsonschema;"
                "jsonschema.validate(json.load(open(sys.argv[1])), json.load(open(sys.argv[2])))")
        env = {k: v for k, v in os.environ.items() if not k.startswith("PYTHON")}
        p = subprocess.run(["python3-vt", "-c", code, path, SCHEMA], capture_output=True, text=True, env=env)
        if p.returncode != 0:
            print(f"[{check_id}] EVIDENCE DOES NOT VALIDATE: {p.stderr[-800:]}")
    return path
