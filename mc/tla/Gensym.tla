------------------------------ MODULE Gensym ------------------------------
(* Model of hy.core.util.gensym's shared-state protocol, N threads, one call
   each:   acquire lock; tmp := counter; tmp := tmp+1; counter := tmp;
           n := counter; release lock; build the symbol from n (thread-local).
   Used by checks/c38.py (thorough tier): TLC checks the invariants below and
   dumps the state graph; every maximal path of that graph is replayed as a
   forced schedule on the real gensym and the shared counter, the lock holder
   and the counter value each thread returns are compared with this model's
   after every action.                                                      *)
EXTENDS Naturals
CONSTANT N
Threads == 1..N
VARIABLES pc, lock, ctr, tmp, n
vars == <<pc, lock, ctr, tmp, n>>

Init == /\ pc = [t \in Threads |-> "acq"]
        /\ lock = 0
        /\ ctr = 0
        /\ tmp = [t \in Threads |-> 0]
        /\ n = [t \in Threads |-> 0]

Acq(t) == /\ pc[t] = "acq" /\ lock = 0
          /\ lock' = t
          /\ pc' = [pc EXCEPT ![t] = "rd"]
          /\ UNCHANGED <<ctr, tmp, n>>
Rd(t)  == /\ pc[t] = "rd"
          /\ tmp' = [tmp EXCEPT ![t] = ctr]
          /\ pc' = [pc EXCEPT ![t] = "inc"]
          /\ UNCHANGED <<lock, ctr, n>>
Inc(t) == /\ pc[t] = "inc"
          /\ tmp' = [tmp EXCEPT ![t] = tmp[t] + 1]
          /\ pc' = [pc EXCEPT ![t] = "wr"]
          /\ UNCHANGED <<lock, ctr, n>>
Wr(t)  == /\ pc[t] = "wr"
          /\ ctr' = tmp[t]
          /\ pc' = [pc EXCEPT ![t] = "rdn"]
          /\ UNCHANGED <<lock, tmp, n>>
RdN(t) == /\ pc[t] = "rdn"
          /\ n' = [n EXCEPT ![t] = ctr]
          /\ pc' = [pc EXCEPT ![t] = "rel"]
          /\ UNCHANGED <<lock, ctr, tmp>>
Rel(t) == /\ pc[t] = "rel" /\ lock = t
          /\ lock' = 0
          /\ pc' = [pc EXCEPT ![t] = "fmt"]
          /\ UNCHANGED <<ctr, tmp, n>>
Fmt(t) == /\ pc[t] = "fmt"
          /\ pc' = [pc EXCEPT ![t] = "done"]
          /\ UNCHANGED <<lock, ctr, tmp, n>>

Next == \E t \in Threads : Acq(t) \/ Rd(t) \/ Inc(t) \/ Wr(t) \/ RdN(t) \/ Rel(t) \/ Fmt(t)
Spec == Init /\ [][Next]_vars

Critical == {"rd", "inc", "wr", "rdn", "rel"}
Returned == {"fmt", "done"}
TypeOK   == /\ lock \in 0..N /\ ctr \in 0..N
            /\ \A t \in Threads : pc[t] \in {"acq", "fmt", "done"} \cup Critical
Mutex    == \A s, t \in Threads : (s # t) => ~(pc[s] \in Critical /\ pc[t] \in Critical)
Holder   == \A t \in Threads : (pc[t] \in Critical) <=> (lock = t)
Distinct == \A s, t \in Threads :
              (s # t /\ pc[s] \in Returned /\ pc[t] \in Returned) => n[s] # n[t]
AllDone  == (\A t \in Threads : pc[t] = "done") => (ctr = N /\ lock = 0)
=============================================================================
