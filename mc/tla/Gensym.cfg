CONSTANT N = 3
SPECIFICATION Spec
INVARIANTS TypeOK Mutex Holder Distinct AllDone
