"""Bounded exhaustive exploration framework for hylang/hy (see /verif/DESIGN.md)."""
