"""Drivers into the implementation under test (worker side only)."""
import types

_counter = [0]


class FuelExhausted(BaseException):
    pass


def rep(v):
    return repr(_plain(v))


def _plain(v):
    if callable(v) and not isinstance(v, type):
        return "<fn>"
    if isinstance(v, (list, tuple)):
        return type(v)(_plain(e) for e in v)
    return v


def fresh_module(name=None):
    _counter[0] += 1
    return types.ModuleType(name or f"mc_case_{_counter[0]}")


def install_effects(mod, fuel=400):
    """Install the logging helpers of language L into a module; returns the log list."""
    log = []

    def logf(i, v):
        if len(log) >= fuel:
            raise FuelExhausted()
        log.append((i, rep(v)))
        return v

    def boom(i):
        logf(i, "boom")
        raise KeyError(i)

    def f2(i, a, b):
        logf(i, (a, b))
        return b

    class cm:
        def __init__(self, i, suppress):
            self.i, self.suppress = i, suppress
            logf(("cm", i, "new"), None)

        def __enter__(self):
            logf(("cm", self.i, "enter"), None)
            return self.i

        def __exit__(self, et, ev, tb):
            # NameError and UnboundLocalError are one outcome class (CPython picks by how the name is compiled)
            logf(("cm", self.i, "exit"), None if et is None else ("NameError" if issubclass(et, NameError) else et.__name__))
            return self.suppress

    mod.log, mod.boom, mod.f2, mod.cm = logf, boom, f2, cm
    return log


def compile_text(text, mod, filename="<case>"):
    """Hy text -> (python ast.Module) using the real reader and compiler."""
    import hy
    from hy.compiler import hy_compile
    return hy_compile(hy.read_many(text, filename=filename), mod, filename=filename, source=text)


def is_user_error(e):
    """Is exception e a user-facing Hy error (HyLanguageError subclass or SyntaxError)?"""
    from hy.errors import HyLanguageError
    return isinstance(e, (HyLanguageError, SyntaxError))
